#!/venv/bin/python
"""Regenerate the tables of section 6 of DESIGN.md (repaired defects, open findings) from known_findings.json and /repo's git log."""
import json, os, subprocess, collections
here = os.path.dirname(os.path.dirname(os.path.abspath(__file__)))
d = json.load(open(os.path.join(here, "known_findings.json")))
log = subprocess.run(["git", "-C", "/repo", "log", "--format=%h %s", "a144fa9..HEAD"], capture_output=True, text=True).stdout.strip().splitlines()
subj = {l.split()[0]: " ".join(l.split()[1:]) for l in log}
by = collections.OrderedDict()
for f in d["fixed"]:
    e = by.setdefault(f["commit"], {"props": [], "what": []})
    if f["property"] not in e["props"]:
        e["props"].append(f["property"])
    e["what"].append(f["what"])
rows = []
for c in [l.split()[0] for l in reversed(log)]:
    e = by.get(c)
    if e is None:
        rows.append(f"| {c} | - | {subj[c]} (no replay recorded) |")
        continue
    rows.append(f"| {c} | {' '.join(e['props'])} | {subj[c][5:]} - " + "; ".join(dict.fromkeys(e["what"])) .replace("|", "/") + " |")
t1 = "| commit | properties | defect |\n|---|---|---|\n" + "\n".join(rows)
rows = [f"| {f['id']} | {f['property']} | {f['what'].replace('|','/')} | `{f['replay']}` |" for f in d["findings"]]
t2 = "| id | property | what fails | stored replay |\n|---|---|---|---|\n" + "\n".join(rows)
p = os.path.join(here, "DESIGN.md")
s = open(p).read()
for b, e, t in (("<!-- fixed-table-begin -->", "<!-- fixed-table-end -->", t1), ("<!-- known-table-begin -->", "<!-- known-table-end -->", t2)):
    s = s[:s.index(b) + len(b)] + "\n" + t + "\n" + s[s.index(e):]
open(p, "w").write(s)
print(len(by), "fix commits with replays,", len(d["findings"]), "open findings")
