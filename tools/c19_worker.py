#!/venv/bin/python
"""Fresh-interpreter side of C19: recompute history/statistics digests under this process' hash seed and heap layout.
  --case FILE            one case (JSON) -> prints its digest (its "prefix_cases", if any, are run first in this interpreter)
  --range PROP TIER SEED LO HI  -> prints JSON {index: digest} for generated cases
"""
import json, os, sys
sys.path.insert(0, os.path.dirname(os.path.dirname(os.path.abspath(__file__))))
import fsim
fsim.quiet()
from fsim import engine_b, gen_b, props
from fsim.rng import rng_for

a = sys.argv[1:]
g = 0
if "--garbage" in a:
    g = int(a[a.index("--garbage") + 1])
junk = [object() for _ in range(g)] + [{i: str(i)} for i in range(g // 10)]   # shifts id() values
if "--case" in a:
    case = json.load(open(a[a.index("--case") + 1]))
    for pc in case.pop("prefix_cases", []):        # other models run earlier in the same interpreter
        engine_b.execute(pc)
    run, ob = engine_b.execute(case)
    fsim.say("DIGEST " + engine_b.full_digest(run))
else:
    i = a.index("--range")
    prop, tier, seed, lo, hi = a[i + 1], a[i + 2], int(a[i + 3]), int(a[i + 4]), int(a[i + 5])
    out = {}
    for idx in range(lo, hi):
        rng = rng_for(seed, tier, prop, "B", idx)
        case = gen_b.make_case(prop, rng, tier, props.c19_opts())
        case["seed"], case["run"] = seed, idx
        run, ob = engine_b.execute(case)
        out[idx] = engine_b.full_digest(run)
    fsim.say("DIGESTS " + json.dumps(out))
sys.stdout.flush()
os._exit(0)     # skip interpreter finalisation: generator finalisers of the library print
