import sys, json
sys.path.insert(0,'/verif')
import fsim; fsim.quiet()
from fsim import engine_b, gen_b
from fsim.rng import rng_for
prop=sys.argv[1]; i=int(sys.argv[2]); 
rng=rng_for(0,'quick',prop,'B',i)
case=gen_b.make_case(prop,rng,'quick',{})
run,ob=engine_b.execute(case)
fsim.say(json.dumps({k:v for k,v in case.items() if k not in('nodes','edges')}))
for n in case['nodes']: fsim.say('  N',json.dumps(n))
for e in case['edges']: fsim.say('  E',json.dumps(e))
if '-l' in sys.argv:
    for r in run.log: fsim.say('   ',r)
for v in ob.viol: fsim.say(v['signature'],'::',v['message'][:400])
fsim.say('crash',run.crash)
