#!/bin/bash
# usage: tools/seeded_check.sh [name ...]   re-run the property check(s) of each stored seeded change against a scratch worktree with the patch applied
cd "$(dirname "$0")/.."
NAMES=${@:-$(ls seeded)}
for N in $NAMES; do
  P=${N:0:3}
  WT=/tmp/wt_seedcheck_$$
  git -C /repo worktree add -q --detach $WT HEAD || exit 2
  if git -C $WT apply /verif/seeded/$N/patch.diff; then
    OUT=$(FSIM_REPO=$WT VERIF_SEED=${SEED:-0} ./check $P --no-evidence --no-shrink 2>&1); RC=$?
    SIG=$(echo "$OUT" | grep -E "^\s+$P\|" | head -2 | cut -c1-170)
    printf "%-52s %s rc=%s\n" "$N" "$P" "$RC"; echo "$SIG"
  else
    echo "$N: patch does not apply"
  fi
  git -C /repo worktree remove --force $WT
done
