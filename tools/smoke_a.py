import sys, collections, time, json
sys.path.insert(0,'/verif')
import fsim; fsim.quiet()
from fsim import layer_a, gen_a
from fsim.rng import rng_for
prop=sys.argv[1]; n=int(sys.argv[2]); kind=sys.argv[3] if len(sys.argv)>3 else None
sigs=collections.Counter(); ex={}
t0=time.time()
for i in range(n):
    rng=rng_for(0,'smoke',prop,i)
    case,gen=gen_a.make_case(prop,rng,'quick',kind)
    h=layer_a.run_case(case,gen=gen)
    for v in h.viol:
        sigs[v.sig]+=1
        if v.sig not in ex or len(h.ops_done)<len(ex[v.sig][1]): ex[v.sig]=(v.msg,h.ops_done,case['cfg'],i)
fsim.say(f"{n} runs {time.time()-t0:.1f}s")
for s,c in sigs.most_common(): 
    fsim.say(c,s); fsim.say('    ',ex[s][0][:300]); fsim.say('    ',ex[s][2], 'run',ex[s][3], len(ex[s][1]),'ops')
