#!/bin/bash
# usage: tools/sigsweep.sh <PROP> <first-seed> <last-seed> : print the violation signatures (known or not) seen per seed
cd "$(dirname "$0")/.."
for s in $(seq $2 $3); do
  VERIF_SEED=$s ./check $1 --no-evidence --no-shrink 2>&1 | grep -E "^\s+$1\|" | sed "s/  x[0-9]*:.*//; s/^ */$s /"
done
