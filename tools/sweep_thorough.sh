#!/bin/bash
# usage: tools/sweep_thorough.sh <seed> <budget-s-per-property> : every registered check in the thorough tier (wider knobs) with a reduced budget
cd "$(dirname "$0")/.."
PROPS=$(/venv/bin/python -c "import sys;sys.path.insert(0,'.');from fsim import props;print(' '.join(sorted(props.PLAN)))")
for p in $PROPS; do
  out=$(VERIF_SEED=$1 ./check $p --tier thorough --budget-s $2 --no-evidence 2>&1); rc=$?
  echo "$p rc=$rc $(echo "$out" | grep -E "population" | sed 's/ distinct.*//' | tr '\n' ';')"
  if [ $rc -ne 0 ]; then echo "$out" | grep -E "^\s+C[0-9]+\||VIOLATION|HARNESS" | cut -c1-300; fi
done
