import sys, json
sys.path.insert(0,'/verif')
import fsim; fsim.quiet()
from fsim import layer_a
r=json.load(open(sys.argv[1])); case=r['case']
h=layer_a.HarnessA(case)
st=h.ad.store
for op in case['ops']:
    try:
        h.do_op(op)
    except layer_a.Stop: 
        fsim.say('STOP'); break
    fsim.say(op,'->',h.obs[-1][1],'t=',h.env.now,'held',h.held,'items',[getattr(x[0],'id',x) if isinstance(x,tuple) else getattr(x,'id',x) for x in st.items],'ready',[x.id for x in getattr(st,'ready_items',[])],'rput',len(st.reservations_put),'rget',len(st.reservations_get),'qp',len(st.reserve_put_queue),'qg',len(st.reserve_get_queue), {n:t.state for n,t in h.toks.items()})
for v in h.viol: fsim.say(v.to_json())
