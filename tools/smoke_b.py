import sys, collections, time, json, traceback
sys.path.insert(0,'/verif')
import fsim; fsim.quiet()
from fsim import engine_b
prop=sys.argv[1]; n=int(sys.argv[2]); onlyprop=sys.argv[3] if len(sys.argv)>3 else None
sigs=collections.Counter(); ex={}
t0=time.time(); ev=0
for i in range(n):
    try:
        r=engine_b.generate_and_run(prop,'quick',0,i)
    except Exception as e:
        fsim.say('HARNESS EXC run',i); traceback.print_exc(); break
    ev+=r['events']
    for v in r['viol']:
        if onlyprop and v['property']!=onlyprop: continue
        sigs[v['signature']]+=1
        if v['signature'] not in ex: ex[v['signature']]=(v['message'],i)
fsim.say(f"{n} runs {time.time()-t0:.1f}s events {ev}")
for s,c in sorted(sigs.items()): 
    fsim.say(c,s); fsim.say('    ',ex[s][0][:330],' run',ex[s][1])
