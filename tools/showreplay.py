import json,sys
for f in sys.argv[1:]:
    r=json.load(open(f)); c=r['case']
    print(f); print(' ',r['expected']['signature']); print('  ',c.get('kind'),c.get('cfg'),'K',c.get('nclients'),'final',c.get('final_adv'))
    for o in c.get('ops',[]): print('     ',o)
    print('  ',r['message'])
