#!/bin/bash
# usage: tools/final_thorough.sh [ids...] : the registered thorough command of every property, in /verif against /repo, evidence written
cd "$(dirname "$0")/.."
IDS=${@:-C13 C12 C04 C06 C02 C01 C05 C07 C11 C14 C18 C20 C03 C08 C09 C10 C15 C16 C17 C19}
for p in $IDS; do
  out=$(./check $p --tier thorough 2>&1); rc=$?
  echo "$p rc=$rc $(date +%H:%M) $(echo "$out" | grep -E "population|cross-interpreter" | sed 's/ violation signature.*//' | tr '\n' ';')"
  if [ $rc -ne 0 ]; then echo "$out" | grep -E "^\s+C[0-9]+\||VIOLATION|HARNESS" | cut -c1-400; fi
done
