import sys, json
sys.path.insert(0,'/verif')
import fsim; fsim.quiet()
from fsim import layer_a, gen_a
from fsim.rng import rng_for
prop=sys.argv[1]; i=int(sys.argv[2]); kind=sys.argv[3] if len(sys.argv)>3 else None
rng=rng_for(0,'smoke',prop,i)
case,gen=gen_a.make_case(prop,rng,'quick',kind)
h=layer_a.run_case(case,gen=gen)
fsim.say(case['cfg'], 'K',case['nclients'])
for j,(op,ob) in enumerate(zip(h.ops_done,h.obs)): fsim.say(j,op,'->',ob[1],'t=',ob[0])
for v in h.viol: fsim.say(v.to_json())
