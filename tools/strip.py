#!/usr/bin/env python3
"""Print a python file without docstrings, comment-only and blank lines (reading aid)."""
import ast, sys
def strip(path):
    src=open(path).read()
    out=[]
    tree=ast.parse(src)
    doclines=set()
    for n in ast.walk(tree):
        if isinstance(n,(ast.FunctionDef,ast.ClassDef,ast.Module)):
            if n.body and isinstance(n.body[0],ast.Expr) and isinstance(getattr(n.body[0],'value',None),ast.Constant) and isinstance(n.body[0].value.value,str):
                for l in range(n.body[0].lineno,n.body[0].end_lineno+1): doclines.add(l)
    for i,l in enumerate(src.split('\n'),1):
        if i in doclines: continue
        if not l.strip(): continue
        if l.strip().startswith('#'): continue
        out.append(f"{i}: {l}")
    return '\n'.join(out)
for p in sys.argv[1:]:
    print(strip(p))
