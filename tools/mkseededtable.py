#!/venv/bin/python
"""Regenerate the table of seeded changes in DESIGN.md section 10 from /verif/seeded/*/meta.json + a fresh tools/seeded_check.sh log (optional)."""
import glob, json, os, re, sys
here = os.path.dirname(os.path.dirname(os.path.abspath(__file__)))
latest = {}
if len(sys.argv) > 1:
    for l in open(sys.argv[1]):
        m = re.match(r"(\S+)\s+(C\d+) rc=(\d)", l)
        if m:
            latest[m.group(1)] = int(m.group(3))
rows = []
for d in sorted(glob.glob(os.path.join(here, "seeded", "*"))):
    m = json.load(open(os.path.join(d, "meta.json")))
    name = os.path.basename(d)
    first = ", ".join(f"{c['check']} {'caught' if c['exit'] == 1 else 'MISSED'}" for c in m["checks_run"])
    now = {1: "caught", 0: "not reported", 2: "harness error"}.get(latest.get(name), "?")
    sig = ""
    for c in m["checks_run"]:
        if c["signatures"]:
            sig = c["signatures"][0].split("  x")[0][:80]
            break
    need = (m.get("needs_to_manifest") or "")
    if isinstance(need, list):
        need = "; ".join(map(str, need))
    need = str(need)[:150].replace("|", "/").replace("\n", " ")
    rows.append(f"| `{name}` | {need} | {first} | {now} | `{sig}` |")
table = "| change | what it needs to manifest | stored evaluation | latest re-run | first signature |\n|---|---|---|---|---|\n" + "\n".join(rows)
p = os.path.join(here, "DESIGN.md")
s = open(p).read()
b, e = "<!-- seeded-table-begin -->", "<!-- seeded-table-end -->"
if b in s:
    s = s[:s.index(b) + len(b)] + "\n" + table + "\n" + s[s.index(e):]
    open(p, "w").write(s)
    print("table updated:", len(rows), "rows")
else:
    print(table)
