#!/bin/bash
# usage: tools/seeded_eval.sh <PROP> <worktree> [name] [extra props to check...]
# confirms a sub-agent's seeded change (tests pass, demo fails with / passes without), stores it under /verif/seeded/<name>/,
# runs the property's quick check against the changed tree and appends the outcome to meta.json
P=$1; WT=$2; NAME=${3:-$P}; shift 3
cd $WT || exit 2
OUT=/verif/seeded/$NAME; mkdir -p $OUT
git diff -- src > $OUT/patch.diff
[ -s $OUT/patch.diff ] || { echo "no source change in $WT"; exit 2; }
T=$(PYTHONPATH=$WT/src /venv/bin/python -m pytest -q -p no:cacheprovider --timeout=900 --continue-on-collection-errors 2>&1 | grep -E " passed| failed" | tail -1)
PYTHONPATH=$WT/src /venv/bin/python seeded/demo.py > /dev/null 2>&1; WITH=$?
git apply -R $OUT/patch.diff        # (not git stash: the stash is shared between worktrees)
PYTHONPATH=$WT/src /venv/bin/python seeded/demo.py > /dev/null 2>&1; WITHOUT=$?
git apply $OUT/patch.diff
cp seeded/demo.py $OUT/ 2>/dev/null; cp seeded/meta.json $OUT/meta.agent.json 2>/dev/null
echo "tests: $T | demo with change exit=$WITH, without exit=$WITHOUT"
RES=""
for Q in $P "$@"; do
  R=$(cd /verif && FSIM_REPO=$WT ./check $Q --no-evidence 2>&1)
  RC=$?
  SIG=$(echo "$R" | grep -E "^\s+$Q\|" | head -3 | cut -c1-260)
  echo "check $Q rc=$RC"; echo "$SIG"
  RES="$RES{\"check\":\"$Q\",\"exit\":$RC,\"signatures\":$(echo "$SIG" | /venv/bin/python -c 'import sys,json;print(json.dumps([l.strip() for l in sys.stdin if l.strip()]))')},"
done
/venv/bin/python - <<P
import json,os
a={}
try: a=json.load(open("$OUT/meta.agent.json"))
except Exception as e: a={"note":"agent meta unreadable: %r"%e}
m={"property":"$P","breaks":a.get("summary"),"needs_to_manifest":a.get("needs_to_manifest"),"files_changed":a.get("files_changed"),
   "confirmed":{"baseline_tests_with_change":"$T","demo_exit_with_change":$WITH,"demo_exit_without_change":$WITHOUT,
                "how":"worktree $WT of /repo HEAD with the change applied; pytest with PYTHONPATH=<wt>/src; demo run with and (git stash) without the change"},
   "checks_run":json.loads("[" + '''$RES'''.rstrip(",") + "]"),
   "how_checks_were_run":"FSIM_REPO=<worktree with the change> ./check <ID> --no-evidence (same code path as the registered quick command; /repo itself untouched)"}
json.dump(m,open("$OUT/meta.json","w"),indent=1)
os.remove("$OUT/meta.agent.json") if os.path.exists("$OUT/meta.agent.json") else None
P
