#!/venv/bin/python
"""Regenerate /verif/MANIFEST.json from the table below (only properties whose plan exists in fsim.props)."""
import json
import os
import sys

sys.path.insert(0, os.path.dirname(os.path.dirname(os.path.abspath(__file__))))
from fsim import props  # noqa: E402

ORACLE = {
    "C01": "count + granted-but-unused space reservations <= capacity after every kernel event and API call (one store under simulated clients, and every edge of whole factories); a put with a granted, un-cancelled own reservation must return truthy and not raise",
    "C02": "multiset identity by object identity after every call; get on a granted live token never raises; every grant must be backed by its own available item in the nondeterministic binding model",
    "C03": "item-location map rebuilt from the observed store-level history of every edge (an item is put only by its holder, got only from the edge that holds it, never in two places) + counter equation generated = in edges + in nodes + packed + discarded + received at the end of every instant + drained-at-T for finite inputs",
    "C04": "at the end of every simulated instant no head-of-line request may be pending while the model says it is servable (free space / available unreserved item satisfying its filter)",
    "C05": "every grant (observed at the exact succeed() call) goes to the minimum (priority, arrival) among the pending requests of its kind",
    "C06": "refinement against a nondeterministic FIFO/LIFO/filter binding model (set of worlds consistent with the history); empty world set = violation",
    "C07": "every ill-formed call must raise RuntimeError, and a twin run without the call must be observationally identical from then on",
    "C08": "held <= work_capacity after every event; the instants at which a node asks downstream equal pull + drawn delay exactly (multiset per instant); delay source consulted once per pulled item, at the pull instant; stats['processing_delay'] equals the applied delays; splitter/combiner analogues",
    "C09": "blocking nodes: discard count stays 0 and no held item is ever dropped; non-blocking nodes: no finished item is held at the end of its finish instant; can_put() answers compared with the edge model at the moment of the call",
    "C10": "end-of-instant: a node with a free worker has outstanding retrieval requests and no granted-unused one, no in-edge offers an unreserved item (FIRST_AVAILABLE); a node holding a finished item has outstanding space requests, none granted-unused, no permitted out-edge with room; no leaked reservations",
    "C11": "buffer item retrievable exactly from put+delay (ready set compared at every instant end); can_put/can_get equal the outcome of a probe reservation issued in the same state; occupancy = in transit + ready; probe neutrality verified by twin run",
    "C12": "exit order = entry order, count <= capacity, entry spacing, first offer >= entry + travel time, = travel time when never waiting",
    "C13": "kinematic recursions for non-accumulating (frozen while stalled, no admission) and accumulating belts (close up, no overtaking) from observed put/get/offer instants",
    "C14": "whole-batch deliveries, round trip >= 2*transit, capacity trigger, waiting bound delay + 2*transit, loading order, from observed load/availability instants",
    "C15": "routing reconstructed from the history vs ROUND_ROBIN / constant / callable / generator answers (call counts included), FIRST_AVAILABLE = lowest-index edge able to serve at the moment of choice, recorded selection lists = observed routing",
    "C16": "every pallet put by a combiner was pulled from in-edge 0 and carries exactly the recipe per in-edge (by history), no item in two pallets; splitter emits each contained item once, then the emptied pallet, nothing else",
    "C17": "after finalisation: totals >= 0, state groups and worker-occupancy histogram add up to T, set-up charged to SETUP_STATE, and time per state equals the activity intervals rebuilt independently from pulls, drawn delays and pushes",
    "C18": "counters vs observed creations/pushes/drops/receptions; time-averaged occupancy vs exact rational integral of observed occupancy; sink cycle-time sum; timestamps monotone",
    "C19": "digest of the full store-level history and of all statistics equal across in-process reruns and fresh interpreters with different hash seeds and heap layout; now monotone",
    "C20": "valid models: no exception escapes env.step(), <= 20000 kernel events per instant; invalid configurations must raise before any item moves on the affected component",
}

NOTE = ("Trusted: SimPy kernel, the harness' reference models/oracles (fsim/*) and adapters; explored region: capacity <= 8, <= 6 clients, "
        "<= 150 ops per Layer-A run; factories of <= 12 components, <= 400 items. Known genuine defects are listed in known_findings.json.")


def main():
    here = os.path.dirname(os.path.dirname(os.path.abspath(__file__)))
    path = os.path.join(here, "MANIFEST.json")
    m = json.load(open(path))
    checks = []
    for pid in sorted(props.PLAN):
        checks.append({
            "property_id": pid,
            "quick_cmd": f"./check {pid} --tier quick",
            "thorough_cmd": f"./check {pid} --tier thorough",
            "evidence_file": f"/verif/evidence/{pid}.json",
            "replay_cmd_template": f"./check {pid} --replay {{path}}",
            "engine": "fsim",
            "level_claimed": {
                "category": "exploration",
                "text": ("Seeded search over thousands (quick) to >= 10^5 (thorough) short simulated runs of the real code under a deterministic "
                         "scheduler with fault injection (populations: " + ", ".join(e for e, *_ in props.PLAN[pid]) + "); oracle: " + ORACLE[pid] +
                         ". Sampling, not enumeration: a clean batch is evidence, not proof."),
                "design_ref": f"DESIGN.md section 4 ({pid})"},
            "level_note": NOTE,
            "technique": "deterministic simulation with fault injection (seeded schedule/fault search over the SimPy kernel seam, reference-model oracles, minimised replay files)",
        })
    m["checks"] = checks
    m["engines"] = [{"name": "fsim", "path": "/verif/fsim", "serves_properties": sorted(props.PLAN),
                     "kind_free_text": "deterministic simulator around the SimPy kernel seam: Layer A (one store/edge + simulated clients), Layer B (whole factories + chaos peers), "
                                       "belt and fleet scenario engines; seeded PRNG, fault injection, reference models, shrinking, replay files"}]
    allp = [json.loads(l)["id"] for l in open(os.path.join(here, "properties.jsonl"))]
    missing = [p for p in allp if p not in props.PLAN]
    m["not_applicable"] = [{"property_id": p, "reason": "not claimed yet: the check is still under construction in this session; the technique "
                            "applies (DESIGN.md section 4) and the property will be claimed once its check is sound on the unchanged tree"} for p in missing]
    m["notes"] = ("checks not yet registered (under construction, will be claimed): " + ", ".join(missing)) if missing else \
        "all 20 properties are decided by deterministic simulation; not_applicable is empty (see DESIGN.md section 0)"
    m["setup_cmd"] = "/venv/bin/python -m compileall -q fsim && /venv/bin/python tools/selfcheck.py"
    json.dump(m, open(path, "w"), indent=1)
    print("checks:", len(checks), "missing:", missing)


main()
