#!/bin/bash
# usage: tools/mut.sh <file-rel-to-src/factorysimpy> <python-expr-old> <python-expr-new> -- check args
# makes a scratch copy of /repo (src only) under /dev/shm, applies one textual replacement, runs ./check against it
set -e
D=/dev/shm/fsim_mut_$$
mkdir -p $D
cp -r /repo/src $D/src
F=$D/src/factorysimpy/$1
OLD="$2" NEW="$3" /venv/bin/python - "$F" <<'P'
import os,sys
p=sys.argv[1]; s=open(p).read(); o=os.environ['OLD']; n=os.environ['NEW']
c=s.count(o)
if c<1: print("PATTERN NOT FOUND"); sys.exit(3)
s=s.replace(o,n, int(os.environ.get('COUNT','1')) if os.environ.get('COUNT') else -1)
open(p,'w').write(s); print(f"mutated {c} site(s)")
P
shift 3; shift
FSIM_REPO=$D /verif/check "$@" || true
rm -rf $D
