#!/venv/bin/python
"""setup_cmd helper: cheap structural checks of the committed machinery (no simulation)."""
import json, os, sys
here = os.path.dirname(os.path.dirname(os.path.abspath(__file__)))
sys.path.insert(0, here)
m = json.load(open(os.path.join(here, "MANIFEST.json")))
assert m["version"] == 1 and m["checks"], "manifest"
kf = json.load(open(os.path.join(here, "known_findings.json")))
for x in kf["findings"] + kf["fixed"]:
    assert os.path.exists(os.path.join(here, x["replay"])), x["replay"]
    json.load(open(os.path.join(here, x["replay"])))
import fsim
fsim.load_repo()
from fsim import props
for c in m["checks"]:
    assert c["property_id"] in props.PLAN, c["property_id"]
print("selfcheck ok:", len(m["checks"]), "checks,", len(kf["findings"]), "open findings,", len(kf["fixed"]), "fixed")
