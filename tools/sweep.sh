#!/bin/bash
# usage: tools/sweep.sh <first-seed> <last-seed> [tier] : run every registered check for a range of seeds; print anything that is not clean
cd "$(dirname "$0")/.."
T=${3:-quick}
PROPS=$(/venv/bin/python -c "import sys;sys.path.insert(0,'.');from fsim import props;print(' '.join(sorted(props.PLAN)))")
for s in $(seq $1 $2); do
  for p in $PROPS; do
    out=$(VERIF_SEED=$s ./check $p --tier $T --no-evidence 2>&1); rc=$?
    if [ $rc -ne 0 ]; then echo "=== seed $s $p rc=$rc"; echo "$out" | grep -E "^\s+C[0-9]+\||VIOLATION|HARNESS" | cut -c1-300; fi
  done
  echo "seed $s done"
done
