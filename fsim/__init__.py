"""fsim - deterministic simulation with fault injection for FactorySimPy.

Importing this package
  * puts the repository's *current working tree* first on sys.path (FSIM_REPO overrides /repo),
  * checks that `factorysimpy` really was imported from there,
  * offers `quiet()` which stubs builtins.print inside simulation workers (the library prints on
    almost every action, also from generator finalisers).
"""
import builtins
import os
import sys

REPO = os.environ.get("FSIM_REPO", "/repo")
SRC = os.path.join(REPO, "src")
if SRC not in sys.path[:1]:
    sys.path.insert(0, SRC)

VERIF = os.path.dirname(os.path.dirname(os.path.abspath(__file__)))

_real_print = builtins.print


def _noprint(*a, **k):
    return None


def quiet(on=True):
    builtins.print = _noprint if on else _real_print


def say(*a, **k):
    """print that survives quiet()."""
    k.setdefault("flush", True)
    _real_print(*a, **k)


def load_repo():
    import factorysimpy  # noqa
    f = os.path.realpath(factorysimpy.__file__)
    want = os.path.realpath(SRC)
    if not f.startswith(want + os.sep):
        raise RuntimeError(f"HARNESS-ERROR factorysimpy imported from {f}, expected under {want}")
    return factorysimpy
