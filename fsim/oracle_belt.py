def check_belt(h):
    return
