"""C12 / C13 - conveyor reference checks from observed instants only.

p_k entry (put), o_k offered (first seen in the ready list), g_k taken (get); slot = item_length/speed (slotted: delay),
T = capacity * slot.  The kinematic recursions are only judged in runs where a granted retrieval is never held over
time, so that "the head waits at the exit" is exactly [o_k, g_k)."""
EPS = 1e-9


def overlap(S, a, b):
    tot = 0.0
    for s, e in S:
        lo, hi = max(s, a), min(e, b)
        if hi > lo:
            tot += hi - lo
    return tot


def feat_of(r, S, slot, dev):
    """Circumstances of a kinematic deviation (narrow signatures for known findings)."""
    e = "before"
    for a, b in S:
        if abs(r.put_t - a) <= EPS:
            e = "at-stall-start"
        elif a < r.put_t < b:
            e = "during-stall"
    ph = "p2"
    for a, b in S:
        if r.put_t < a < r.put_t + slot - EPS:
            ph = "p1"
    nst = sum(1 for a, b in S if b > r.put_t and (r.avail_t is None or a < r.avail_t))
    return f",entry={e},stall-in-phase={ph},stalls={min(nst, 3)},{'early' if dev < 0 else 'late'}"


def held_lower_bound(h, recs, T, now, lab):
    """Runs in which a retrieval reservation was held over time: 'the head waits' is unambiguous only while an item is at the exit
    and NO retrieval reservation is outstanding.  During those intervals a non-accumulating belt stands still, so an item cannot
    reach the exit earlier than entry + travel + the definitely-stopped time it spent on the belt (a lower bound only)."""
    ev = []
    for x in h.hist:
        k = x[0]
        if k == "avail":
            ev.append((x[2], x[1], "ready", +1))
        elif k == "get":
            ev.append((x[2], x[1], "ready", -1))
            ev.append((x[2], x[1], "res", -1))
        elif k == "grant" and x[4] == "g":
            ev.append((x[2], x[1], "res", +1))
        elif k == "cancel" and x[4] == "g" and x[5] == "granted":
            ev.append((x[2], x[1], "res", -1))
    ev.sort(key=lambda e: (e[0], e[1]))
    ready = res = 0
    S, start = [], None
    for t, _, what, d in ev:
        if what == "ready":
            ready += d
        else:
            res += d
        stopped = ready >= 1 and res == 0
        if stopped and start is None:
            start = t
        elif not stopped and start is not None:
            if t - start > 1e-7:
                S.append((start, t))
            start = None
    if start is not None and now - start > 1e-7:
        S.append((start, now))
    h.probe("belt_held_retrieval_run_judged")
    for r in recs:
        if r.avail_t is None:
            continue
        lo = r.put_t + T + overlap(S, r.put_t, r.avail_t)
        if r.avail_t < lo - 1e-7 * max(1, T):
            h.violate("C13", "nonacc-frozen-lower", f"{r.name} entered at {r.put_t} and reached the exit at {r.avail_t}; while it was on the belt the head waited unclaimed "
                      f"(no retrieval reservation outstanding) for {overlap(S, r.put_t, r.avail_t)}, so it cannot be there before {lo}", feat=lab)
            break


def check_belt(h):
    ad = h.ad
    slot, T, cap, acc = ad.slot, ad.travel, ad.cap, bool(ad.acc)
    now = h.env.now
    recs = [r for r in h.items.values() if r.put_t is not None]
    recs.sort(key=lambda r: r.put_seq)
    if not recs:
        return
    lab = ()
    waited = any(r.avail_t is not None and (r.got_t is None or r.got_t > r.avail_t) for r in recs)
    octx = ",after-stall" if waited else ",no-stall"
    # ---------------- C12
    # exit order: a consumer holding several granted retrievals may use them in any order, so items are compared in
    # the order in which their retrievals were granted (one retrieval at a time = plain order of the gets)
    tok_of = {x[3]: h.toks[x[4]] for x in h.hist if x[0] == "get"}
    gets = sorted([r for r in recs if r.got_t is not None], key=lambda r: tok_of[r.name].granted_seq)
    pos = {r.name: i for i, r in enumerate(recs)}
    seq = [pos[r.name] for r in gets]
    if seq != sorted(seq) and not h.feat.get("cg"):
        # (runs in which a granted retrieval was cancelled are judged by the binding model instead: C12 exit-order)
        h.violate("C12", "order", f"items entered in order {[r.name for r in recs]} but were handed to successive retrievals in order {[r.name for r in gets]}", feat=lab, extra=octx)
    offs = sorted([r for r in recs if r.avail_t is not None], key=lambda r: r.avail_seq)
    if [r.name for r in offs] != [r.name for r in recs][:len(offs)]:
        # circumstances of the first overtaking: y reached the exit before x although x entered first
        Sx = [(r.avail_t, r.got_t if r.got_t is not None else now) for r in recs if r.avail_t is not None]
        Sx = [(a, b) for a, b in Sx if b > a]
        y = next(r for i, r in enumerate(offs) if r.name != recs[i].name)
        x = recs[[r.name for r in offs].index(y.name)]
        def rel(r):
            e = "before"
            for a, b in Sx:
                if abs(r.put_t - a) <= EPS:
                    e = "at-stall-start"
                elif a < r.put_t < b:
                    e = "during-stall"
            return e
        p1 = any(abs(x.put_t + slot - a) <= EPS for a, b in Sx)
        lead = "same-instant" if y.avail_t == x.avail_t or x.avail_t is None and False else ("by<slot" if x.avail_t is not None and x.avail_t - y.avail_t < slot - EPS else "by>=slot")
        octx += f",overtaken-entry={rel(x)},overtaker-entry={rel(y)},lead={lead}"
        h.violate("C12", "offer-order", f"items entered in order {[r.name for r in recs]} but reached the exit in order {[r.name for r in offs]}", feat=lab, extra=octx)
    for a, b in zip(recs, recs[1:]):
        if b.put_t - a.put_t < slot - EPS:
            # circumstances: was the belt empty when the first of the pair entered (nothing put before it is still inside)?
            inside_before = sum(1 for q in recs if q.put_seq < a.put_seq and (q.got_t is None or q.got_t > a.put_t))
            ta = next((x[4] for x in h.hist if x[0] == "put" and x[3] == a.name), None)
            tb = next((x[4] for x in h.hist if x[0] == "put" and x[3] == b.name), None)
            same_grant_instant = ta in h.toks and tb in h.toks and h.toks[ta].granted_at == h.toks[tb].granted_at
            h.violate("C12", "spacing", f"{b.name} entered at {b.put_t}, only {b.put_t - a.put_t} after {a.name} (one item length of travel = {slot})", feat=lab,
                      extra=f",belt-{'empty' if inside_before == 0 else 'non-empty'}-before-the-pair,reservations-granted-{'in-one-instant' if same_grant_instant else 'at-different-instants'}")
            break
    for r in recs:
        if r.avail_t is not None and r.avail_t < r.put_t + T - EPS:
            h.violate("C12", "min-travel", f"{r.name} entered at {r.put_t} and was offered at {r.avail_t}, before the belt travel time {T}", feat=lab)
            break
    # a granted retrieval held over time makes "the head waits at the exit" ambiguous (reserved but not taken)
    held_tokens_over_time = False
    for t in h.toks.values():
        if t.kind != "g" or t.granted_at is None:
            continue
        end = next((x[2] for x in h.hist if x[0] in ("get", "cancel") and (x[4] if x[0] == "get" else x[3]) == t.name), now)
        if end != t.granted_at:
            held_tokens_over_time = True
    never_waiting = all(r.got_t == r.avail_t for r in recs if r.avail_t is not None) and not held_tokens_over_time
    if never_waiting:
        h.probe("c12_never_waiting_run")
        for r in recs:
            if r.avail_t is not None and abs(r.avail_t - (r.put_t + T)) > EPS * max(1, T):
                h.violate("C12", "exact-travel", f"destination took every item at once, yet {r.name} entered at {r.put_t} was offered at {r.avail_t}: "
                          f"travel {r.avail_t - r.put_t} != {T}", feat=lab)
                break
            if r.avail_t is None and now > r.put_t + T + EPS:
                h.violate("C12", "exact-travel", f"destination took every item at once, yet {r.name} entered at {r.put_t} is still not offered at {now} (travel time {T})", feat=lab)
                break
    # ---------------- C13
    if held_tokens_over_time:
        if not acc and h.kind == "cconv":
            held_lower_bound(h, recs, T, now, lab)
        return
    S = [(r.avail_t, r.got_t if r.got_t is not None else now) for r in recs if r.avail_t is not None]
    S = [(a, b) for a, b in S if b > a]
    if S and any(r.put_t < a and (r.avail_t is None or r.avail_t > a) for a, b in S for r in recs):
        h.probe("belt_stall_with_followers")
    if any(x[0] == "grant" and x[4] == "p" and not x[5] for x in h.hist):
        h.probe("belt_entry_waited_for_spacing")
    if not acc and h.kind == "cconv":
        # C12 spacing in units of BELT TRAVEL: a stopped non-accumulating belt does not move the previous item away from the
        # entry, so the time it stood still does not count (slotted belts excluded: they never stop, finding KF05)
        for x, y in zip(recs, recs[1:]):
            moved = (y.put_t - x.put_t) - overlap(S, x.put_t, y.put_t)
            if y.put_t - x.put_t >= slot - EPS and moved < slot - 1e-7 * max(1, slot):
                h.violate("C12", "spacing", f"{y.name} entered at {y.put_t}, {y.put_t - x.put_t} after {x.name}, but the belt stood still for "
                          f"{overlap(S, x.put_t, y.put_t)} of that time: only {moved} of travel (one item length of travel = {slot})", feat=lab,
                          extra=",belt-stopped-in-between")
                break
    if not acc:
        aseq = {x[3]: i for i, x in enumerate(h.hist) if x[0] == "avail"}       # position in the history = exact order
        gseq = {x[3]: i for i, x in enumerate(h.hist) if x[0] == "grant"}
        for r in recs:
            for q in recs:
                if q.avail_t is None or q is r:
                    continue
                a, b = q.avail_t, (q.got_t if q.got_t is not None else now)
                if not b > a:
                    continue
                # "admitted" = the instant the entry reservation was granted (a producer may hold a granted reservation and put later)
                tok = next((x[4] for x in h.hist if x[0] == "put" and x[3] == r.name), None)
                adm_t = h.toks[tok].granted_at if tok in h.toks and h.toks[tok].granted_at is not None else r.put_t
                inside = a + EPS < adm_t < b - EPS
                # in the very instant the head reached the exit: only if the space reservation was *granted* in a later
                # kernel event than the one in which the head became ready (the order of same-instant events is exact)
                at_start_after = (abs(adm_t - a) <= EPS and tok in gseq and q.name in aseq and gseq[tok] > aseq[q.name])
                if inside or at_start_after:
                    moving = sum(1 for z in recs if z.put_t < adm_t and (z.avail_t is None or z.avail_t > adm_t))
                    h.violate("C13", "nonacc-admission", f"{r.name} was admitted (entry reservation granted) at {adm_t} while the head item {q.name} was waiting at the exit during [{a}, {b})", feat=lab,
                              extra=f",moving-items={'0' if moving == 0 else '>0'},{'inside-stall' if inside else 'granted-in-stall-start-instant-after-head-arrived'}")
                    break
        for r in recs:
            if r.avail_t is None:
                if S or True:
                    exp_min = r.put_t + T + overlap(S, r.put_t, now)
                    if now > exp_min + EPS and not any(a <= now <= b + EPS for a, b in S if b == now):
                        # it should have been offered by now unless the belt is stopped right now
                        stopped_now = any(a <= now and b >= now for a, b in S)
                        if not stopped_now:
                            h.violate("C13", "nonacc-frozen", f"{r.name} entered at {r.put_t}; with {overlap(S, r.put_t, now)} of stopped belt it should have been "
                                      f"offered at {exp_min}, still moving at {now}", feat=lab)
                            break
                continue
            exp = r.put_t + T + overlap(S, r.put_t, r.avail_t)
            if abs(r.avail_t - exp) > 1e-7 * max(1, T):
                h.violate("C13", "nonacc-frozen", f"{r.name} entered at {r.put_t}, belt stopped for {overlap(S, r.put_t, r.avail_t)} meanwhile: it must be offered at "
                          f"{exp} (entry + travel {T} + stopped time) but was offered at {r.avail_t}", feat=lab, extra=feat_of(r, S, slot, r.avail_t - exp))
                break
    else:
        # ready_items of an accumulating belt is the queue of items accumulated at the exit end, so "offered" only
        # means "joined that queue": the lower bound is C12's minimum travel time; what C13 adds is that followers
        # KEEP ADVANCING and resume without loss: o_k <= max(p_k + T, g_{k-1} + slot)
        prev = None
        for r in recs:
            if r.avail_t is None:
                hi = r.put_t + T
                if prev is not None:
                    if prev.got_t is None:
                        break
                    hi = max(hi, prev.got_t + slot)
                if now > hi + 1e-7 * max(1, T):
                    h.violate("C13", "acc-upper", f"{r.name} entered at {r.put_t}, predecessor left at {prev.got_t if prev else None}: it keeps advancing and must be "
                              f"offered by {hi} but is still on its way at {now}", feat=lab)
                break
            hi = r.put_t + T
            if prev is not None and prev.got_t is not None:
                hi = max(hi, prev.got_t + slot)
            elif prev is not None:
                hi = None
            if hi is not None and r.avail_t > hi + 1e-7 * max(1, T):
                h.violate("C13", "acc-upper", f"{r.name} entered at {r.put_t}, predecessor left at {prev.got_t if prev else None}: it keeps advancing and must be "
                          f"offered by {hi} but was offered at {r.avail_t}", feat=lab, extra=feat_of(r, S, slot, 1))
                break
            prev = r
    # admission liveness at the end of the run: a pending entry with room, spacing elapsed and (non-acc) no stall
    pend = [t for t in h.toks.values() if t.kind == "p" and t.state == "pending"]
    if pend and h.held + h.n_granted("p") < cap:
        last = recs[-1].put_t
        stalled = (not acc) and any(a <= now and b >= now for a, b in S)
        if now >= last + slot + EPS and not stalled:
            h.violate("C13", "admission-liveness", f"space request {pend[0].name} pending at {now} although the belt holds {h.held} of {cap}, last entry at {last}, "
                      f"{'accumulating' if acc else 'not stalled'}", feat=lab)
