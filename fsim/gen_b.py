"""Layer B case generation: random factory graphs of real nodes/edges (+ optional chaos peers)."""
from .rng import LATTICES

BIG = 10 ** 9

POLICIES = ["FIRST_AVAILABLE", "FIRST_AVAILABLE", "ROUND_ROBIN", "RANDOM", "const", "callable", "generator"]


def vals(rng, lat, n, allow_zero=True):
    pool = [x for x in lat if allow_zero or x > 0]
    return [rng.choice(pool) for _ in range(n)]


def delay_spec(rng, lat, allow_zero=True, n=8):
    form = rng.choice(["const", "const", "callable", "generator"])
    v = vals(rng, lat, 1 if form == "const" else n, allow_zero)
    return {"form": form, "vals": v}


def policy_spec(rng, n_edges, allow_bad=False):
    p = rng.choice(POLICIES)
    if n_edges == 1 and rng.random() < 0.5:
        p = "FIRST_AVAILABLE"
    if p == "const":
        return rng.randrange(n_edges)
    if p in ("callable", "generator"):
        return {"form": p, "vals": [rng.randrange(n_edges) for _ in range(rng.randint(1, 6))]}
    return p


class G:
    def __init__(self, rng, lat, opts):
        self.rng, self.lat, self.opts = rng, lat, opts
        self.nodes, self.edges = [], []
        self.k = 0

    def nid(self, p):
        self.k += 1
        return f"{p}{self.k}"

    def source(self, flow="item", n_items=None, blocking=None):
        rng = self.rng
        n = n_items if n_items is not None else rng.choice([3, 5, 8, 12, 20, 30])
        blocking = rng.random() < 0.65 if blocking is None else blocking
        iat = {"form": rng.choice(["callable", "generator"]), "vals": vals(rng, self.lat, n, allow_zero=blocking), "tail": BIG}
        if rng.random() < 0.15:
            pos = [x for x in self.lat if x > 0]
            iat = {"form": "const", "vals": [rng.choice(pos)]}          # unbounded input
        s = {"id": self.nid("S"), "type": "source", "flow": flow, "iat": iat, "blocking": blocking, "item_length": 1}
        self.nodes.append(s)
        return s

    def machine(self):
        rng = self.rng
        m = {"id": self.nid("M"), "type": "machine", "wc": rng.choice([1, 1, 2, 3, 4]), "pdelay": delay_spec(rng, self.lat),
             "blocking": rng.random() < 0.7, "setup": rng.choice([0, 0, 0, 1, 0.5, 2])}
        self.nodes.append(m)
        return m

    def sink(self):
        k = {"id": self.nid("K"), "type": "sink"}
        self.nodes.append(k)
        return k

    def combiner(self, recipe):
        rng = self.rng
        c = {"id": self.nid("C"), "type": "combiner", "recipe": recipe, "pdelay": delay_spec(rng, self.lat),
             "blocking": rng.random() < 0.75, "setup": rng.choice([0, 0, 1])}
        self.nodes.append(c)
        return c

    def splitter(self):
        rng = self.rng
        s = {"id": self.nid("P"), "type": "splitter", "pdelay": delay_spec(rng, self.lat), "blocking": rng.random() < 0.75,
             "setup": rng.choice([0, 0, 1])}
        if rng.random() < 0.25:
            s["split_quantity"] = rng.choice([1, 2, 3])        # a parameter of the other mode: must make no difference when unpacking
        self.nodes.append(s)
        return s

    def chaos_consumer(self):
        rng = self.rng
        script = [[rng.choice(self.lat + [3, 5]), rng.choice(["take", "take", "take", "late", "cancel"])] for _ in range(rng.randint(1, 5))]
        c = {"id": self.nid("X"), "type": "chaos_consumer", "script": script, "hold": rng.choice([x for x in self.lat if x > 0] + [4])}
        self.nodes.append(c)
        return c

    def chaos_producer(self):
        rng = self.rng
        script = [[rng.choice(self.lat + [2, 4]), rng.choice([1, 1, 2, 3])] for _ in range(rng.randint(1, 4))]
        c = {"id": self.nid("Y"), "type": "chaos_producer", "script": script, "n_max": rng.choice([5, 10, 20, 40])}
        self.nodes.append(c)
        return c

    def edge(self, src, dst, force=None):
        rng = self.rng
        st, dt = src["type"], dst["type"]
        allowed = ["buffer", "buffer", "buffer", "fleet", "cconv", "sconv"]
        if not self.opts.get("wide"):
            if st in ("splitter", "combiner"):
                allowed = ["buffer"]              # their blocking FIRST_AVAILABLE branch accepts Buffer out-edges only (explicit ValueError otherwise)
            if st == "chaos_producer":
                allowed = ["buffer", "buffer", "fleet"]
        if self.opts.get("conv_bias") and "cconv" in allowed:
            allowed = ["buffer", "cconv", "cconv", "cconv", "sconv"]
        t = force or rng.choice(allowed)
        e = {"id": self.nid("E"), "type": t, "src": src["id"], "dst": dst["id"], "cap": rng.choice([1, 1, 2, 2, 3, 4, 5])}
        pos = [x for x in self.lat if x > 0]
        if t == "buffer":
            e["delay"] = delay_spec(rng, self.lat)
            e["mode"] = rng.choice(["FIFO", "FIFO", "FIFO", "LIFO"])
        elif t == "fleet":
            e["delay"] = rng.choice(pos + [1, 2] + ([0] if rng.random() < 0.25 else []))      # zero waiting delay is in the domain
            e["transit"] = rng.choice(self.lat)
        elif t == "cconv":
            e["speed"] = rng.choice([1, 1, 2, 0.5])
            e["item_length"] = 1
            e["accumulating"] = rng.choice([0, 1])
        elif t == "sconv":
            e["delay"] = rng.choice(pos)
            e["accumulating"] = rng.choice([0, 1])
        self.edges.append(e)
        return e


def finish_policies(g):
    rng = g.rng
    nin, nout = {}, {}
    for e in g.edges:
        nout[e["src"]] = nout.get(e["src"], 0) + 1
        nin[e["dst"]] = nin.get(e["dst"], 0) + 1
    for n in g.nodes:
        t = n["type"]
        if t in ("source", "machine", "splitter", "combiner"):
            preset = n.get("out_sel")
            n["out_sel"] = policy_spec(rng, nout.get(n["id"], 1))       # always drawn, so that presets do not shift the stream
            if preset is not None:
                n["out_sel"] = preset
        if t in ("machine", "splitter"):
            preset = n.get("in_sel")
            n["in_sel"] = policy_spec(rng, nin.get(n["id"], 1))
            if preset is not None:
                n["in_sel"] = preset
            if max(nin.get(n["id"], 1), nout.get(n["id"], 1)) >= 2 and rng.random() < 0.08:
                n["in_sel"] = n["out_sel"] = "ROUND_ROBIN"         # the same stateful policy on both sides of one node


def build_topology(g, prop):
    rng = g.rng
    tmpl = rng.choice(["chain", "chain", "fanin", "fanout", "diamond", "multi_src_out", "combiner", "sinkfanin", "parallel"])
    if prop in ("C08", "C09", "C10", "C15", "C17") and rng.random() < 0.3:
        tmpl = rng.choice(["contended_fanout", "contended_fanin"])
    if prop in ("C09", "C17", "C03", "C10") and rng.random() < 0.2:
        tmpl = "combiner"
    if prop in ("C10", "C15", "C06", "C03", "C20", "C08", "C09", "C16", "C17", "C18") and rng.random() < 0.1:
        tmpl = "splitter_fanin"
    if g.opts.get("conv_bias") and rng.random() < 0.4:
        tmpl = "conv_fanin"
    if prop == "C16":
        tmpl = "combiner"
    if prop in ("C03", "C08", "C09", "C10", "C16", "C17", "C18", "C20") and rng.random() < 0.12:
        tmpl = "contended_unit"
    if prop in ("C08", "C15") and tmpl in ("combiner", "sinkfanin") and rng.random() < 0.6:
        tmpl = rng.choice(["fanin", "fanout", "diamond", "parallel"])

    def end(node):
        """Attach a consumer to `node`."""
        if rng.random() < g.opts.get("p_chaos_consumer", 0.25):
            k = g.chaos_consumer()
        else:
            k = g.sink()
        g.edge(node, k)
        return k

    def start():
        if rng.random() < g.opts.get("p_chaos_producer", 0.12):
            return g.chaos_producer()
        return g.source()

    if tmpl == "chain":
        prev = start()
        for _ in range(rng.choice([0, 1, 1, 2, 3])):
            m = g.machine()
            g.edge(prev, m)
            prev = m
        end(prev)
    elif tmpl == "fanin":
        m = g.machine()
        for _ in range(rng.choice([2, 2, 3])):
            g.edge(start(), m)
        if rng.random() < 0.4:
            m2 = g.machine()
            g.edge(m, m2)
            m = m2
        end(m)
    elif tmpl == "fanout":
        s = start()
        m = g.machine()
        g.edge(s, m)
        for _ in range(rng.choice([2, 2, 3])):
            if rng.random() < 0.4:
                m2 = g.machine()
                g.edge(m, m2)
                end(m2)
            else:
                end(m)
    elif tmpl == "diamond":
        s = start()
        m1 = g.machine()
        g.edge(s, m1)
        m4 = g.machine()
        for _ in range(2):
            mm = g.machine()
            g.edge(m1, mm)
            g.edge(mm, m4)
        end(m4)
    elif tmpl == "multi_src_out":
        s = g.source()
        for _ in range(rng.choice([2, 2, 3])):
            if rng.random() < 0.5:
                m = g.machine()
                g.edge(s, m)
                end(m)
            else:
                end(s)
    elif tmpl == "parallel":
        s = start()
        m = g.machine()
        for _ in range(2):
            g.edge(s, m)
        k = g.sink()
        for _ in range(rng.choice([1, 2])):
            g.edge(m, k)
    elif tmpl == "sinkfanin":
        k = g.sink()
        for _ in range(rng.choice([2, 3])):
            s = start()
            if rng.random() < 0.5:
                m = g.machine()
                g.edge(s, m)
                g.edge(m, k)
            else:
                g.edge(s, k)
    elif tmpl == "contended_fanout":
        # several workers finishing in the same instant compete for capacity-1 out-edges
        s = g.source(n_items=rng.choice([6, 10, 16]))
        s["iat"] = {"form": "callable", "vals": [rng.choice([0, 0, 0, 1, 2]) for _ in range(len(s["iat"].get("vals", [0] * 8)) or 8)], "tail": BIG}
        s["blocking"] = True
        m = g.machine()
        m["wc"] = rng.choice([2, 2, 3, 4])
        m["pdelay"] = {"form": "const", "vals": [rng.choice([1, 2, 0.5])]} if rng.random() < 0.7 else m["pdelay"]
        m["setup"] = rng.choice([0, 0, 3])
        if rng.random() < 0.35:
            m["blocking"] = False
        e = g.edge(s, m, force="buffer")
        e["cap"] = rng.choice([2, 3, 4])
        e["delay"] = 0
        for _ in range(rng.choice([2, 2, 3])):
            k = g.chaos_consumer() if rng.random() < 0.4 else g.sink()
            eo = g.edge(m, k, force="buffer")
            eo["cap"] = rng.choice([1, 1, 1, 2, 3])
            eo["delay"] = rng.choice([0, 0, 2, 5])
    elif tmpl == "contended_fanin":
        # items become available on several in-edges in the same instant
        m = g.machine()
        gap = rng.choice([1, 2])
        for i in range(rng.choice([2, 2, 3])):
            s = g.source(n_items=rng.choice([4, 8, 12]))
            s["iat"] = {"form": "const", "vals": [gap]} if rng.random() < 0.6 else s["iat"]
            s["blocking"] = True
            e = g.edge(s, m, force="buffer")
            e["delay"] = rng.choice([0, 0, gap, 2 * gap])
            e["cap"] = rng.choice([1, 2])
        end(m)
    elif tmpl == "conv_fanin":
        # several conveyors feed one slow FIRST_AVAILABLE consumer: it reserves on all of them and cancels the rest every cycle, so heads
        # wait at the exits (stalls with followers) and granted retrievals are withdrawn in the instant they were granted
        m = g.machine() if rng.random() < 0.75 else g.sink()
        if m["type"] == "machine":
            m["wc"] = rng.choice([1, 1, 2])
            m["pdelay"] = {"form": "const", "vals": [rng.choice([1, 1.5, 2, 3])]}
            m["in_sel"] = "FIRST_AVAILABLE" if rng.random() < 0.8 else None
            m["blocking"] = True
        for i in range(rng.choice([2, 2, 3])):
            s = g.source(n_items=rng.choice([6, 10, 16]), blocking=True)
            if rng.random() < 0.7:
                s["iat"] = {"form": "const", "vals": [rng.choice([0.5, 1, 1, 1.5, 2])]}
            e = g.edge(s, m, force=rng.choice(["cconv", "cconv", "cconv", "sconv", "buffer"]))
            if e["type"] == "cconv":
                e["accumulating"] = rng.choice([0, 0, 1])
        if m["type"] == "machine":
            if m["in_sel"] is None:
                del m["in_sel"]
            end(m)
    elif tmpl == "splitter_fanin":
        # a splitter fed by several pallet sources (empty pallets): its reserve-on-all / cancel-the-rest input side
        sp = g.splitter()
        for _ in range(rng.choice([2, 2, 3])):
            ps = g.source(flow="pallet", n_items=rng.choice([3, 6, 10]))
            g.edge(ps, sp)
        for _ in range(rng.choice([1, 2])):
            end(sp)
    elif tmpl == "contended_unit":
        # a combiner (or the splitter behind it) whose several capacity-1 out-edges lead to slow consumers: one out-edge is
        # full when the unit commits to another and frees up later - the reserve-on-all / cancel-the-rest output side under back-pressure
        n_ing = rng.choice([1, 1, 2])
        c = g.combiner([1] + [rng.choice([1, 1, 2]) for _ in range(n_ing)])
        ps = g.source(flow="pallet", n_items=rng.choice([6, 10, 16]), blocking=True)
        g.edge(ps, c, force="buffer")
        for i in range(n_ing):
            g.edge(g.source(n_items=rng.choice([30, 40]), blocking=True), c, force="buffer")
        u = c
        if rng.random() < 0.5:
            u = g.splitter()
            g.edge(c, u)
        u["blocking"] = rng.random() < 0.85
        if rng.random() < 0.7:
            u["out_sel"] = "FIRST_AVAILABLE"
        u["pdelay"] = {"form": "const", "vals": [rng.choice([0, 0.5, 1])]}
        for _ in range(rng.choice([2, 2, 3])):
            if rng.random() < 0.6:
                k = g.machine()
                k["wc"] = 1
                k["pdelay"] = {"form": "const", "vals": [rng.choice([3, 5, 7])]}
                end(k)
            else:
                k = g.chaos_consumer() if rng.random() < 0.6 else g.sink()
            eo = g.edge(u, k, force="buffer")
            eo["cap"] = 1
            eo["delay"] = rng.choice([0, 0, 0, 2])
    elif tmpl == "combiner":
        n_ing = rng.choice([1, 1, 2, 3])
        recipe = [1] + [rng.choice([1, 1, 2, 3]) for _ in range(n_ing)]
        if n_ing >= 2 and rng.random() < 0.3:
            recipe[rng.randrange(1, n_ing + 1)] = 0          # legal: nothing is taken from that ingredient edge
            if not any(recipe[1:]):
                recipe[1] = 1
        c = g.combiner(recipe)
        n_p = rng.choice([2, 3, 5, 8])
        ps = g.source(flow="pallet", n_items=n_p)
        g.edge(ps, c)
        for i in range(n_ing):
            s = g.source(n_items=rng.choice([2, 4, 8, 16, 30]))
            g.edge(s, c)
        r = rng.random()
        if r < 0.2:
            # chained combiners: the second one receives pallets that already carry items
            n2 = rng.choice([1, 2])
            c2 = g.combiner([1] + [rng.choice([1, 2, 3, 4]) for _ in range(n2)])
            g.edge(c, c2)
            for i in range(n2):
                g.edge(g.source(n_items=rng.choice([4, 8, 16, 30])), c2)
            c = c2
            r = rng.random() * 0.8 + 0.2
        if r < 0.65:
            sp = g.splitter()
            g.edge(c, sp)
            for _ in range(rng.choice([1, 2, 3])):
                end(sp)
        else:
            for _ in range(rng.choice([1, 2])):
                end(c)
    return tmpl


def make_case(prop, rng, tier, opts=None):
    opts = dict(opts or {})
    if opts.get("conv_bias_p") and rng.random() < opts["conv_bias_p"]:
        opts["conv_bias"] = True
    lat_name = rng.choice(["dyadic", "dyadic", "unit", "decimal", "coprime"])
    if prop == "C17" and rng.random() < 0.5:
        lat_name = rng.choice(["decimal", "coprime"])
    lat = LATTICES[lat_name]
    g = G(rng, lat, opts)
    tmpl = build_topology(g, prop)
    finish_policies(g)
    invalid = None
    if opts.get("invalid") and rng.random() < opts["invalid"]:
        invalid = inject_invalid(g, rng)        # before the construction order is drawn: it may add nodes / edges
    ids = [n["id"] for n in g.nodes] + [e["id"] for e in g.edges]
    order = list(ids)
    if rng.random() < 0.7:
        rng.shuffle(order)
    corder = [e["id"] for e in g.edges]
    if rng.random() < 0.7:
        rng.shuffle(corder)
        # a combiner's first in-edge is its pallet edge: keep that one ahead of its other in-edges
        for n in g.nodes:
            if n["type"] == "combiner":
                ins = [e["id"] for e in g.edges if e["dst"] == n["id"]]
                pos = sorted(corder.index(x) for x in ins)
                for p_, x in zip(pos, ins):
                    corder[p_] = x
    # horizon
    t_in = 0.0
    finite = True
    for n in g.nodes:
        if n["type"] == "source":
            if not isinstance(n["iat"], dict) or n["iat"]["form"] == "const":
                finite = False
            else:
                t_in = max(t_in, sum(n["iat"]["vals"]))
    r = rng.random()
    if prop == "C17" or r < 0.25:
        T = rng.choice([0.3, 1, 2.5, 7.3, 13, 20.7, 40])          # awkward end times (F10)
    elif finite:
        T = t_in + rng.choice([30, 60, 120, 300])
    else:
        T = rng.choice([20, 40, 80])
    bad_index = None
    if prop == "C15" and rng.random() < 0.12:
        # an out-of-range answer from a user selector must surface as an error, never be wrapped or ignored
        cands = [n for n in g.nodes if n["type"] in ("machine", "source", "splitter", "combiner")]
        if cands:
            n = rng.choice(cands)
            side = rng.choice(["out", "in"]) if n["type"] in ("machine", "splitter") else "out"
            cnt = sum(1 for e in g.edges if (e["src"] if side == "out" else e["dst"]) == n["id"])
            good = [rng.randrange(cnt) for _ in range(rng.randint(0, 3))]
            n[side + "_sel"] = {"form": rng.choice(["callable", "generator"]), "vals": good + [rng.choice([cnt, cnt + 1, -1, -2])]}
            bad_index = {"node": n["id"], "side": side, "position": len(good)}
    if invalid:
        T = max(T, t_in + 30) if finite else max(T, 20)
    case = {"layer": "B", "T": T, "nodes": g.nodes, "edges": g.edges, "order": order, "connect_order": corder,
            "random_seed": rng.randrange(1 << 30),
            "meta": {"prop": prop, "template": tmpl, "lattice": lat_name, "finite_input": finite, "t_input_end": t_in}}
    if prop in ("C18", "C19", "C03") and not invalid and rng.random() < 0.25:
        case["edge_report_at"] = rng.choice([T / 2, T / 4, min(T, t_in) / 2 if t_in > 0 else T / 3, 1.5])
    if invalid:
        case["meta"]["invalid"] = invalid
    if bad_index:
        case["meta"]["bad_index"] = bad_index
    if opts.get("wide"):
        case["meta"]["wide"] = True
    return case


def inject_invalid(g, rng):
    """Turn a valid model into an invalid one by exactly one defect; returns {"kind", "where"}."""
    kinds = ["edge-capacity", "buffer-mode", "negative-edge-delay", "negative-processing-delay", "negative-delay-from-callable",
             "nonblocking-source-zero-iat", "index-out-of-range-in", "index-out-of-range-out", "negative-iat",
             "node-without-out-edge", "node-without-in-edge", "source-with-in-edge", "sink-with-out-edge"]
    rng.shuffle(kinds)
    for k in kinds:
        if k == "node-without-out-edge":
            # an extra machine/splitter/combiner that is fed but has nowhere to push to
            s0 = g.source(n_items=3)
            m = rng.choice([g.machine, g.splitter])() if rng.random() < 0.7 else g.combiner([1])
            if m["type"] == "combiner":
                s0["flow"] = "pallet"
            g.edge(s0, m, force="buffer")
            return {"kind": k, "where": m["id"]}
        if k == "node-without-in-edge":
            m = rng.choice([g.machine, g.splitter])()
            kk = g.sink()
            g.edge(m, kk, force="buffer")
            return {"kind": k, "where": m["id"]}
        if k == "source-with-in-edge":
            srcs = [n for n in g.nodes if n["type"] == "source"]
            ms = [n for n in g.nodes if n["type"] == "machine"]
            if srcs and ms:
                g.edge(rng.choice(ms), rng.choice(srcs), force="buffer")
                return {"kind": k, "where": srcs[0]["id"] if len(srcs) == 1 else [e for e in g.edges][-1]["dst"]}
        if k == "sink-with-out-edge":
            ks = [n for n in g.nodes if n["type"] == "sink"]
            if ks:
                k1 = rng.choice(ks)
                k2 = g.sink()
                g.edge(k1, k2, force="buffer")
                return {"kind": k, "where": k1["id"]}
        if k == "edge-capacity":
            c = [e for e in g.edges if e["type"] != "cconv"]      # a continuous conveyor has no capacity parameter
            if c:
                e = rng.choice(c)
                e["cap"] = rng.choice([0, -1, 1.5, "2"])
                return {"kind": k, "where": e["id"]}
        if k == "buffer-mode":
            c = [e for e in g.edges if e["type"] == "buffer"]
            if c:
                e = rng.choice(c)
                e["mode"] = rng.choice(["FILO", "fifo", "RANDOM", ""])
                return {"kind": k, "where": e["id"]}
        if k == "negative-edge-delay":
            c = [e for e in g.edges if e["type"] == "buffer"]
            if c:
                e = rng.choice(c)
                e["delay"] = rng.choice([-1, -0.5])
                return {"kind": k, "where": e["id"]}
        if k == "negative-processing-delay":
            c = [n for n in g.nodes if n["type"] in ("machine", "splitter", "combiner")]
            if c:
                n = rng.choice(c)
                n["pdelay"] = rng.choice([-1, -0.25])
                return {"kind": k, "where": n["id"]}
        if k == "negative-delay-from-callable":
            c = [n for n in g.nodes if n["type"] == "machine"]
            if c:
                n = rng.choice(c)
                n["pdelay"] = {"form": rng.choice(["callable", "generator"]), "vals": [-1]}
                return {"kind": k, "where": n["id"]}
        if k == "nonblocking-source-zero-iat":
            c = [n for n in g.nodes if n["type"] == "source"]
            if c:
                n = rng.choice(c)
                n["blocking"] = False
                n["iat"] = rng.choice([0, 0, 0.0])
                return {"kind": k, "where": n["id"]}
        if k == "negative-iat":
            c = [n for n in g.nodes if n["type"] == "source"]
            if c:
                n = rng.choice(c)
                n["iat"] = {"form": "const", "vals": [-1]}
                return {"kind": k, "where": n["id"]}
        if k == "index-out-of-range-in":
            c = [n for n in g.nodes if n["type"] in ("machine", "splitter")]
            if c:
                n = rng.choice(c)
                nin = sum(1 for e in g.edges if e["dst"] == n["id"])
                n["in_sel"] = rng.choice([nin, nin + 3, -1])
                return {"kind": k, "where": n["id"]}
        if k == "index-out-of-range-out":
            c = [n for n in g.nodes if n["type"] in ("machine", "splitter", "combiner", "source")]
            if c:
                n = rng.choice(c)
                nout = sum(1 for e in g.edges if e["src"] == n["id"])
                n["out_sel"] = rng.choice([nout, nout + 2, -1])
                return {"kind": k, "where": n["id"]}
    return None
