"""End-of-run history oracles of Layer A (C11 delay draw count, C18 occupancy integral, C12/C13 belts, C14 fleet)."""
from fractions import Fraction


def close(a, b, tol=1e-9):
    return abs(a - b) <= tol * max(1.0, abs(a), abs(b))


def finish(h):
    ad = h.ad
    # drain phase (fault-free closing phase of some runs): everything that was put must have been retrievable
    if getattr(h, "drain_stuck", False) and h.held > 0:
        left = sorted(r.name for r in h.items.values() if r.state == "inside")
        h.violate("C02", "stuck-inside", f"after withdrawing every reservation, a single retrieval request waits for ever at t={h.env.now}: no event is scheduled "
                  f"and {left} never become retrievable (items put into the store are lost to every consumer)", feat=("cg", "cp"))
    # C11: the Buffer edge draws its delay exactly once per accepted put (ill-formed puts excluded: the
    # draw happens before the store validates the token, which C07 does not forbid)
    if h.kind == "buf" and ad.form != "constant":
        n_put = sum(1 for x in h.hist if x[0] == "put")
        n_bad = h.faults.get("F3_misuse_put", 0)
        if not (n_put <= ad.delay_src.calls <= n_put + n_bad):
            h.violate("C11", "delay-draws", f"{ad.delay_src.calls} delay draws for {n_put} accepted puts", feat=())
    # C18: time-averaged occupancy of an edge
    if ad.is_edge:
        c18_edge(h)
    if ad.timed == "fleet":
        from .oracle_fleet import check_fleet
        check_fleet(h)
    if ad.timed == "belt":
        from .oracle_belt import check_belt
        check_belt(h)


def c18_edge(h):
    ad = h.ad
    T = h.env.now
    h.integrate()
    edge = ad.edge
    if h.kind == "buf":
        edge.update_final_buffer_avg_content(T)
        got = edge.stats["time_averaged_num_of_items_in_buffer"]
    elif h.kind == "flt":
        edge.update_final_fleet_avg_content(T)
        got = edge.stats["time_averaged_num_of_items_in_fleet"]
    else:
        edge.update_final_conveyor_avg_content(T)
        got = edge.stats["time_averaged_num_of_items_in_conveyor"]
    exp = float(h.integ / Fraction(T)) if T > 0 else 0.0
    h.probe("c18_edge_integral_checked")
    if not close(got, exp, 1e-9):
        h.violate("C18", "edge-time-average", f"time-averaged occupancy reported {got!r}, integral of true occupancy / T = {exp!r} (T={T})", feat=())
