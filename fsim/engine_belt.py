"""BELT engine: Layer A machinery with the producer/consumer scenario generator (C12 / C13)."""
from . import layer_a, gen_belt, engine_a
from .rng import rng_for

NAME = "BELT"
replay = engine_a.replay
shrink = engine_a.shrink
has_key = engine_a.has_key


def generate_and_run(prop, tier, seed, idx, want_sample=False, **_):
    rng = rng_for(seed, tier, prop, "BELT", idx)
    case, gen = gen_belt.make_case(prop, rng, tier)
    case["seed"], case["run"] = seed, idx
    h = layer_a.run_case(case, gen=gen)
    r = engine_a._result(h, case, prop)
    r["nontrivial"] = bool(h.probes.get("belt_stall_with_followers") or h.probes.get("belt_entry_waited_for_spacing"))
    if want_sample:
        r["sample"] = engine_a._sample(case, h)
    return r
