"""End-of-run oracles of Layer B: C08 (offer instants, delay draws), C15 (policies), C17 (state times),
C18 (counters, occupancy integrals, cycle times, timestamps), bounded liveness of C03/C10."""
from fractions import Fraction

from .oracles_b import close, PROC


def const_of(spec):
    if isinstance(spec, dict):
        return spec["vals"][0] if spec["form"] == "const" else None
    return spec


def finish(o):
    run = o.run
    T = o.case["T"]
    o.on_instant_end()
    for nid, nr in o.nrec.items():
        if nr.type == "machine":
            c08_machine(o, nid, nr, T)
        elif nr.type == "splitter":
            c08_splitter(o, nid, nr, T)
        elif nr.type == "combiner":
            c08_combiner(o, nid, nr, T)
        if nr.type in ("machine", "splitter", "combiner", "source"):
            c15_node(o, nid, nr, T)
    timed_edges(o, T)
    c18_all(o, T)
    c17_all(o, T)
    liveness(o, T)


# ---- C08 --------------------------------------------------------------------------------------------------
def rounds(o, nid, nr, T):
    """Instants at which the node asked downstream for a finished unit (one entry per request round)."""
    fa = o.pol(nid, "out") == "FIRST_AVAILABLE"
    out = []
    for seq, t, kind, oi, res in nr.offers:
        if nr.blocking:
            if kind != "rp":
                continue
        else:
            if kind != "canput":
                continue
        if fa and oi != 0:
            continue
        out.append((seq, t))
    return out


def c08_machine(o, nid, nr, T):
    node = o.run.nodes[nid]
    vs = o.run.vsrc.get((nid, "pdelay"))
    ds = [l["d"] for l in nr.life]
    rec = list(node.stats.get("processing_delay", []))
    if vs is not None:
        if len(vs.calls) != len(nr.life):
            o.violate("C08", "delay-draw-count", o.nlabel(nid), f"{nid} pulled {len(nr.life)} items but consulted its processing-delay source {len(vs.calls)} times")
    if rec != ds and None not in ds:
        o.violate("C08", "delay-record", o.nlabel(nid), f"{nid} stats['processing_delay']={rec[:8]}.. but the delays applied per pulled item are {ds[:8]}..")
    fin = {}
    for l in nr.life:
        if l["finish"] is not None and l["finish"] <= T:
            fin[l["finish"]] = fin.get(l["finish"], 0) + 1
    got = {}
    for seq, t in rounds(o, nid, nr, T):
        got[t] = got.get(t, 0) + 1
    if nr.blocking and o.pol(nid, "out") == "FIRST_AVAILABLE" and len(node.out_edges) > 1 and len({e.id for e in node.out_edges}) != len(node.out_edges):
        return
    if fin != got:
        bad = sorted(set(fin) ^ set(got)) or sorted(t for t in fin if fin[t] != got.get(t))
        t0 = bad[0]
        o.violate("C08", "offer-instant", o.nlabel(nid),
                  f"{nid}: items finishing (pull + drawn delay) per instant {dict(sorted(fin.items())[:6])} but downstream was asked at "
                  f"{dict(sorted(got.items())[:6])}; first difference at t={t0}")
    # (a) once more from the complete history: an item is held from its pull to its push (or to the instant it was dropped)
    ev = []
    for l in nr.life:
        ev.append((l["pull_t"], l["pull_seq"], +1, l["item"]))
        if l["leave_t"] is not None:
            ev.append((l["leave_t"], l.get("leave_seq", -1), -1, l["item"]))
    ev.sort(key=lambda x: (x[0], x[1], x[2]))
    cur = 0
    wc = nr.spec.get("wc", 1)
    for t, sq, d, iid in ev:
        cur += d
        if cur > wc:
            o.violate("C08", "work_capacity", o.nlabel(nid), f"{nid} holds {cur} items at t={t} (pulled and not yet pushed or dropped), work_capacity {wc}")
            break
    o.probe("c08_machine_checked")


def first_offer_after(nr, t0, seq0):
    for seq, t, kind, oi, res in nr.offers:
        if seq > seq0 and (kind == "rp" if nr.blocking else kind == "canput"):
            return t
    return None


def c08_splitter(o, nid, nr, T):
    for l in nr.life:
        d = l["d"]
        if d is None:
            d = const_of(nr.spec.get("pdelay", 0))
            if d is None:
                continue
        f = l["pull_t"] + d
        if f > T:
            continue
        t1 = first_offer_after(nr, l["pull_t"], l["pull_seq"])
        if t1 is None or t1 != f:
            o.violate("C08", "offer-instant", o.nlabel(nid), f"{nid} pulled pallet {l['item']} at {l['pull_t']} with delay {d} but first asked downstream at {t1}")
            return
    o.probe("c08_splitter_checked")


def c08_combiner(o, nid, nr, T):
    prev_leave = 0
    for l in nr.life:
        d = l["d"]
        if d is None:
            d = const_of(nr.spec.get("pdelay", 0))
        if d is None or "gathered" not in l:
            break
        # the delay starts when the last ingredient is in and the (single) worker slot is free
        start = l.get("complete_t", None)
        if start is None:
            break
        if "draw_t" in l and l["draw_t"] != start:
            o.violate("C08", "delay-drawn-late", o.nlabel(nid), f"{nid}: pallet {l['item']} complete at {start} but the processing delay was drawn at {l['draw_t']}")
        start = max(start, prev_leave)
        f = start + d
        if f <= T:
            t1 = None
            for seq, t, kind, oi, res in nr.offers:
                if t >= start and (kind == "rp" if nr.blocking else kind == "canput") and seq > l["pull_seq"]:
                    t1 = t
                    break
            if t1 != f:
                o.violate("C08", "offer-instant", o.nlabel(nid), f"{nid}: pallet {l['item']} complete at {start}, delay {d}, but downstream first asked at {t1}")
                return
        if l["leave_t"] is None:
            if nr.blocking or f > T:
                break
            prev_leave = f          # a non-blocking combiner is rid of its unit in the finish instant, pushed or dropped (C09)
            continue
        prev_leave = l["leave_t"]
    o.probe("c08_combiner_checked")


# ---- C15 --------------------------------------------------------------------------------------------------
def expect_seq(o, nid, side, n_edges, k):
    """Expected first k routing decisions for the node's policy, or None when not determined (RANDOM/FA)."""
    spec = o.nrec[nid].spec.get(side + "_sel", "FIRST_AVAILABLE")
    if isinstance(spec, int):
        return [spec] * k
    if spec == "ROUND_ROBIN":
        return [i % n_edges for i in range(k)]
    if isinstance(spec, dict):
        vs = o.run.vsrc.get((nid, "policy_" + side))
        if vs is None:
            return [spec["vals"][0]] * k
        return [c[2] for c in vs.calls[:k]]
    return None


def c15_node(o, nid, nr, T):
    node = o.run.nodes[nid]
    lab = o.nlabel(nid)
    # ---- input side
    if nr.type in ("machine", "splitter"):
        n_in = len(node.in_edges)
        pulls = [x[2] for x in nr.pulls]
        pol = o.pol(nid, "in")
        rec = list(node.stats.get("in_edge_selection", []))
        if pol == "FIRST_AVAILABLE":
            # recorded at the moment of choice; the splitter records before it has a free worker, so one more is possible
            if rec[:len(pulls)] != pulls or len(rec) - len(pulls) not in (0, 1):
                o.violate("C15", "in-record", lab + ",FIRST_AVAILABLE", f"{nid} recorded in_edge_selection {rec[:10]} but pulled from in-edges {pulls[:10]}")
            c15_first_available_in(o, nid, nr)
        else:
            exp = expect_seq(o, nid, "in", n_in, len(pulls))
            if exp is not None and exp != pulls:
                o.violate("C15", "in-policy", lab + "," + pol, f"{nid} policy {pol} demands in-edges {exp[:10]} but items were pulled from {pulls[:10]}")
            if rec[:len(pulls)] != pulls or len(rec) - len(pulls) not in (0, 1):
                o.violate("C15", "in-record", lab + "," + pol, f"{nid} recorded in_edge_selection {rec[:10]} but pulled from in-edges {pulls[:10]}")
            vs = o.run.vsrc.get((nid, "policy_in"))
            if vs is not None and len(vs.calls) - len(pulls) not in (0, 1):
                o.violate("C15", "in-policy-calls", lab + "," + pol, f"{nid} consulted its in-edge selector {len(vs.calls)} times for {len(pulls)} items")
        o.probe("c15_in_checked")
    # ---- output side
    n_out = len(node.out_edges)
    pol = o.pol(nid, "out")
    pushes = [x[2] for x in nr.pushes]
    rec = list(getattr(node, "stats", {}).get("out_edge_selection", [])) if nr.type != "source" else None
    if pol == "FIRST_AVAILABLE":
        if nr.blocking:
            if rec is not None and rec[:len(pushes)] != pushes:
                o.violate("C15", "out-record", lab + ",FIRST_AVAILABLE", f"{nid} recorded out_edge_selection {rec[:10]} but pushed to out-edges {pushes[:10]}")
            c15_first_available_out(o, nid, nr)
        else:
            # chosen = first edge whose can_put() answered True in the round
            c15_nonblocking_fa(o, nid, nr, rec, pushes)
    else:
        # one decision per finished unit: the edge asked first (reserve_put when blocking, can_put otherwise)
        asked = [oi for _, _, kind, oi, _ in nr.offers if (kind == "rp" if nr.blocking else kind == "canput")]
        exp = expect_seq(o, nid, "out", n_out, len(asked))
        if exp is not None and exp != asked:
            o.violate("C15", "out-policy", lab + "," + pol, f"{nid} policy {pol} demands out-edges {exp[:10]} but asked {asked[:10]}")
        if rec is not None and rec[:len(asked)] != asked:
            o.violate("C15", "out-record", lab + "," + pol, f"{nid} recorded out_edge_selection {rec[:10]} but asked out-edges {asked[:10]}")
        vs = o.run.vsrc.get((nid, "policy_out"))
        if vs is not None and len(vs.calls) != len(asked):
            o.violate("C15", "out-policy-calls", lab + "," + pol, f"{nid} consulted its out-edge selector {len(vs.calls)} times for {len(asked)} decisions")
        if nr.blocking and not set(pushes) <= set(asked):
            o.violate("C15", "out-policy", lab + "," + pol, f"{nid} pushed to out-edges {sorted(set(pushes))} but only asked {sorted(set(asked))}")
    o.probe("c15_out_checked")


def _round_tokens(o, nid, kind, tokid):
    """Tokens of the same request round as the used one: issued by the node in the same kernel event."""
    byid = {tk.id: tk for tk in o.run.toks.values()}
    used = byid.get(tokid)
    if used is None:
        return None, []
    return used, [tk for tk in byid.values() if tk.actor == nid and tk.kind == kind and tk.seq == used.seq and tk is not used]


def c15_first_available_in(o, nid, nr):
    """At the moment of the choice no request of the same round on a lower-index in-edge was already granted."""
    for seq, t, ii, iid, tokid in nr.pulls:
        used, others = _round_tokens(o, nid, "g", tokid)
        for tk in others:
            j = o.in_idx.get((nid, tk.edge))
            if j is None or j >= ii:
                continue
            # granted strictly before the kernel event in which the node chose (its get) => it was triggered at the choice
            if tk.granted_seq is not None and tk.granted_seq < used.end_seq and tk.state == "cancelled":
                o.violate("C15", "first-available-in", o.nlabel(nid), f"{nid} pulled {iid} from in-edge {ii} at t={t} although its request on lower in-edge {j} was already granted")
                return
    o.probe("c15_fa_in_rounds_checked", len(nr.pulls))


def c15_first_available_out(o, nid, nr):
    for seq, t, oi, iid, tokid in nr.pushes:
        used, others = _round_tokens(o, nid, "p", tokid)
        for tk in others:
            j = o.out_idx.get((nid, tk.edge))
            if j is None or j >= oi:
                continue
            if tk.granted_seq is not None and tk.granted_seq < used.end_seq and tk.state == "cancelled":
                o.violate("C15", "first-available-out", o.nlabel(nid), f"{nid} pushed {iid} to out-edge {oi} at t={t} although its request on lower out-edge {j} was already granted")
                return
    o.probe("c15_fa_out_rounds_checked", len(nr.pushes))


def c15_nonblocking_fa(o, nid, nr, rec, pushes):
    # group can_put probes into rounds: a round ends with the first True (or when all edges answered False)
    n_out = len(o.run.nodes[nid].out_edges)
    chosen = []
    cur = []
    for seq, t, kind, oi, res in nr.offers:
        if kind != "canput":
            continue
        cur.append((oi, res))
        if res or len(cur) == n_out:
            idx = [x for x, r in cur]
            if idx != list(range(len(idx))):
                o.violate("C15", "first-available-scan-order", o.nlabel(nid), f"{nid} probed out-edges in order {idx}")
            if res:
                chosen.append(oi)
            cur = []
    if chosen[:len(pushes)] != pushes:
        o.violate("C15", "first-available-out", o.nlabel(nid) + ",non-blocking", f"{nid}: lowest-index out-edges with room were {chosen[:10]} but items went to {pushes[:10]}")
    if rec is not None and rec[:len(pushes)] != pushes:
        o.violate("C15", "out-record", o.nlabel(nid) + ",FIRST_AVAILABLE", f"{nid} recorded out_edge_selection {rec[:10]} but pushed to out-edges {pushes[:10]}")


# ---- C18 --------------------------------------------------------------------------------------------------
EDGE_FINAL = {"buffer": ("update_final_buffer_avg_content", "time_averaged_num_of_items_in_buffer"),
              "fleet": ("update_final_fleet_avg_content", "time_averaged_num_of_items_in_fleet"),
              "cconv": ("update_final_conveyor_avg_content", "time_averaged_num_of_items_in_conveyor"),
              "sconv": ("update_final_conveyor_avg_content", "time_averaged_num_of_items_in_conveyor")}


def edge_report(o, T, when):
    """Ask every edge for its time-averaged occupancy at T and compare it with the integral of the observed occupancy.  The edge
    finalisers stamp their own bookkeeping, so a report may be repeated and the simulation may go on after it."""
    run = o.run
    o.on_instant_end()
    for eid, er in o.erec.items():
        edge = run.edges[eid]
        o.integrate(er, T)
        fn, key = EDGE_FINAL[er.type]
        exp = float(er.integ / Fraction(T)) if T > 0 else 0.0
        for rep in ("", ",asked-twice"):
            try:
                getattr(edge, fn)(T)
            except Exception as e:
                o.violate("C18", "edge-finalisation-crash:" + type(e).__name__, o.elabel(eid), f"{eid}.{fn}({T}) raised {e!r}")
                break
            got = edge.stats[key]
            if not close(got, exp):
                extra = ("" if when == "final" and not rep else f" ({when} report{rep})")
                o.violate("C18", "edge-time-average", o.elabel(eid) + ("" if when == "final" else ",mid-run-report") + rep,
                          f"{eid}: time-averaged occupancy reported {got!r}, integral of observed occupancy / T = {exp!r}{extra}")
                break
        o.probe("c18_edge_integral_checked" if when == "final" else "c18_edge_midrun_report_checked")


def c18_all(o, T):
    run = o.run
    edge_report(o, T, "final" if o.case.get("edge_report_at") is None else "final-after-mid-run")
    for nid, nr in o.nrec.items():
        node = run.nodes[nid]
        st = getattr(node, "stats", {})
        lab = o.nlabel(nid)
        if nr.type == "sink":
            rec = o.recv.get(nid, [])
            if st.get("num_item_received") != len(rec):
                o.violate("C18", "received-counter", lab, f"{nid} num_item_received={st.get('num_item_received')} but it took {len(rec)} items")
            tot = 0.0
            ok = True
            for t, iid in rec:
                obj = run.items.get(iid)
                c = getattr(obj, "timestamp_creation", None)
                if c is None:
                    ok = False
                    break
                tot += t - c
            if ok and not close(st.get("total_cycle_time", 0.0), tot):
                o.violate("C18", "cycle-time", lab, f"{nid} total_cycle_time={st.get('total_cycle_time')} but sum(reception - creation) = {tot}")
        elif nr.type == "source":
            pushed = nr.first_seen
            g, d = st.get("num_item_generated", 0), st.get("num_item_discarded", 0)
            if g - pushed - d not in (0, 1):
                o.violate("C18", "generated-counter", lab, f"{nid} num_item_generated={g}, pushed {pushed}, num_item_discarded={d}")
        elif nr.type in PROC:
            npush = len(nr.pushes)
            if st.get("num_item_processed") != npush:
                o.violate("C18", "processed-counter", lab, f"{nid} num_item_processed={st.get('num_item_processed')} but it pushed {npush} units downstream")
            if nr.type != "machine" and st.get("num_item_discarded", 0) != nr.drops:
                o.violate("C18", "discard-counter", lab, f"{nid} num_item_discarded={st.get('num_item_discarded')} but {nr.drops} units were dropped")
    # timestamps along the route
    for iid, obj in run.items.items():
        c = getattr(obj, "timestamp_creation", None)
        en, ex = getattr(obj, "timestamp_node_entry", None), getattr(obj, "timestamp_node_exit", None)
        if c is None:
            continue
        for what, v in (("node_entry", en), ("node_exit", ex)):
            if v is not None and v < c:
                o.violate("C18", "timestamp-order", "item", f"{iid}: timestamp_{what}={v} < timestamp_creation={c}")
        first_put = None
        for er in o.erec.values():
            for seq, t, x in er.puts:
                if x == iid and (first_put is None or t < first_put):
                    first_put = t
        if first_put is not None and c > first_put:
            o.violate("C18", "timestamp-order", "item", f"{iid}: timestamp_creation={c} after its first put at {first_put}")
    o.probe("c18_counters_checked")


# ---- C17 --------------------------------------------------------------------------------------------------
def c17_all(o, T):
    run = o.run
    for nid, nr in o.nrec.items():
        if nr.type in ("chaos_consumer", "chaos_producer"):
            continue
        node = run.nodes[nid]
        lab = nr.type
        try:
            node.update_final_state_time(T)
        except Exception as e:
            setup = nr.spec.get("setup", 0)
            phase = "during-setup" if T < setup or (T == setup and setup > 0) else "after-setup"
            o.violate("C17", "finalisation-crash:" + type(e).__name__, lab, f"{nid}.update_final_state_time({T}) raised {e!r} (node_setup_time={setup})", phase)
            continue
        tot = node.stats["total_time_spent_in_states"]
        for k, v in tot.items():
            if v < -1e-12:
                o.violate("C17", "negative-state-time", lab, f"{nid}: {k} = {v}")
        setup = nr.spec.get("setup", 0) if nr.type != "source" else 0
        if nr.type == "machine":
            a = tot["SETUP_STATE"] + tot["IDLE_STATE"] + tot["ATLEAST_ONE_PROCESSING_STATE"] + tot["ALL_ACTIVE_BLOCKED_STATE"]
            b = tot["SETUP_STATE"] + tot["IDLE_STATE"] + tot["ALL_ACTIVE_PROCESSING_STATE"] + tot["ATLEAST_ONE_BLOCKED_STATE"]
            occ = sum(node.time_per_work_occupancy)
            if not close(a, T, 1e-9) or not close(b, T, 1e-9):
                o.violate("C17", "state-sum", lab, f"{nid}: state groups add up to {a} / {b}, T={T} ({ {k: round(v, 6) for k, v in tot.items()} })")
            if not close(occ, T, 1e-9):
                o.violate("C17", "occupancy-histogram-sum", lab, f"{nid}: time_per_work_occupancy {node.time_per_work_occupancy} adds up to {occ}, T={T}")
            c17_machine_activity(o, nid, nr, node, T)
        else:
            s = sum(tot.values())
            if not close(s, T, 1e-9):
                o.violate("C17", "state-sum", lab, f"{nid}: state times {tot} add up to {s}, T={T}")
            if nr.type in ("splitter", "combiner"):
                c17_unit_activity(o, nid, nr, node, T)
            elif nr.type == "source":
                c17_source_activity(o, nid, nr, node, T)
        if nr.type in PROC and not close(tot.get("SETUP_STATE", 0.0), min(T, setup), 1e-9):
            o.violate("C17", "setup-time", lab, f"{nid}: SETUP_STATE charged {tot.get('SETUP_STATE')}, set-up lasts {setup}, T={T}")
        o.probe("c17_node_checked")


def step_integral(intervals, T, classify):
    """intervals: list of (start, end, kind); returns {class: time} with class = classify(n_proc, n_blocked)."""
    pts = {0, T}
    for a, b, k in intervals:
        pts.add(min(max(a, 0), T))
        pts.add(min(max(b, 0), T))
    pts = sorted(pts)
    out = {}
    for a, b in zip(pts, pts[1:]):
        if b <= a:
            continue
        mid = (a + b) / 2
        np_ = sum(1 for s, e, k in intervals if k == "P" and s <= mid < e)
        nb = sum(1 for s, e, k in intervals if k == "B" and s <= mid < e)
        for c in classify(np_, nb):
            out[c] = out.get(c, 0.0) + (b - a)
    return out


def c17_machine_activity(o, nid, nr, node, T):
    setup = nr.spec.get("setup", 0)
    iv = []
    for l in nr.life:
        if l["finish"] is None:
            return
        end = l["leave_t"] if l["leave_t"] is not None else T
        iv.append((l["pull_t"], min(l["finish"], T), "P"))
        if end > l["finish"]:
            iv.append((l["finish"], end, "B"))

    def classify(p, b):
        out = []
        if p == 0 and b == 0:
            out.append("IDLE_STATE")
        if p > 0:
            out.append("ATLEAST_ONE_PROCESSING_STATE")
        if b > 0 and p == 0:
            out.append("ALL_ACTIVE_BLOCKED_STATE")
        if p > 0 and b == 0:
            out.append("ALL_ACTIVE_PROCESSING_STATE")
        if b > 0:
            out.append("ATLEAST_ONE_BLOCKED_STATE")
        return out
    exp = step_integral(iv, T, classify)
    exp["IDLE_STATE"] = exp.get("IDLE_STATE", 0.0) - min(T, setup)
    tot = node.stats["total_time_spent_in_states"]
    for k in ("IDLE_STATE", "ATLEAST_ONE_PROCESSING_STATE", "ALL_ACTIVE_BLOCKED_STATE", "ALL_ACTIVE_PROCESSING_STATE", "ATLEAST_ONE_BLOCKED_STATE"):
        if not close(tot.get(k, 0.0), exp.get(k, 0.0), 1e-7):
            o.violate("C17", "activity:" + k, nr.type, f"{nid}: {k} charged {tot.get(k)}, actual activity (from pulls, drawn delays, pushes) gives {exp.get(k, 0.0)}; T={T}")
            return
    o.probe("c17_machine_activity_checked")


def c17_unit_activity(o, nid, nr, node, T):
    """Splitter / combiner: PROCESSING = within the processing delay, BLOCKED = finished unit waiting, IDLE otherwise."""
    setup = nr.spec.get("setup", 0)
    iv = []
    prev_leave = 0
    for l in nr.life:
        d = l["d"] if l["d"] is not None else const_of(nr.spec.get("pdelay", 0))
        if d is None:
            return
        if nr.type == "splitter":
            start = l["pull_t"]
        else:
            if "complete_t" not in l:
                continue
            start = max(l["complete_t"], prev_leave)
        fin = start + d
        end = l["leave_t"] if l["leave_t"] is not None else T
        iv.append((start, min(fin, T), "P"))
        if end > fin:
            iv.append((fin, end, "B"))
        prev_leave = end

    def classify(p, b):
        if p > 0:
            return ["PROCESSING_STATE"]
        if b > 0:
            return ["BLOCKED_STATE"]
        return ["IDLE_STATE"]
    exp = step_integral(iv, T, classify)
    exp["IDLE_STATE"] = exp.get("IDLE_STATE", 0.0) - min(T, setup)
    tot = node.stats["total_time_spent_in_states"]
    for k in ("PROCESSING_STATE", "BLOCKED_STATE", "IDLE_STATE"):
        if not close(tot.get(k, 0.0), exp.get(k, 0.0), 1e-7):
            o.violate("C17", "activity:" + k, nr.type, f"{nid}: {k} charged {tot.get(k)}, actual activity gives {exp.get(k, 0.0)}; T={T}")
            return
    o.probe("c17_unit_activity_checked")


def c17_source_activity(o, nid, nr, node, T):
    """BLOCKED = holding a generated item it cannot deliver; GENERATING otherwise."""
    tot = node.stats["total_time_spent_in_states"]
    vs = o.run.vsrc.get((nid, "iat"))
    spec = nr.spec["iat"]
    # generation instants: blocking source: previous push + iat; they are observable through the pushes
    pushes = [x[1] for x in nr.pushes]
    if not nr.blocking:
        return
    vals = [c[2] for c in vs.calls] if vs is not None else None
    blocked = 0.0
    tprev = 0.0
    k = 0
    n_gen = node.stats["num_item_generated"]
    if vals is not None and len(vals) < n_gen:
        o.probe("c17_source_fewer_draws_than_items")     # the library consulted the inter-arrival source less often than it generated items:
        return                                           # the generation instants cannot be reconstructed (C08/C18 judge the draws themselves)
    for i in range(n_gen):
        v = vals[i] if vals is not None else const_of(spec)
        g = tprev + v
        if g > T:
            break
        p = pushes[i] if i < len(pushes) else T
        blocked += min(p, T) - g
        tprev = p
    if not close(tot.get("BLOCKED_STATE", 0.0), blocked, 1e-7):
        o.violate("C17", "activity:BLOCKED_STATE", "source", f"{nid}: BLOCKED_STATE charged {tot.get('BLOCKED_STATE')}, it actually held an undeliverable item for {blocked}; T={T}")
    o.probe("c17_source_activity_checked")


# ---- bounded liveness (C03 / C10) ---------------------------------------------------------------------------
def liveness(o, T):
    meta = o.meta
    if not meta.get("finite_input") or o.run.crash is not None:
        return
    if any(n["type"] in ("chaos_consumer", "chaos_producer") for n in o.case["nodes"]):
        return
    if T < meta.get("t_input_end", 0) + 30:
        return
    # a constant / round-robin / user in-edge policy may legitimately wait for ever on one edge while another
    # holds items ("nothing is blocked forever" is the premise of the liveness half)
    nin = {}
    for e in o.case["edges"]:
        nin[e["dst"]] = nin.get(e["dst"], 0) + 1
    for n in o.case["nodes"]:
        if nin.get(n["id"], 0) > 1 and n["type"] in ("machine", "splitter") and n.get("in_sel", "FIRST_AVAILABLE") != "FIRST_AVAILABLE":
            return
    # every source must have finished its input
    for n in o.case["nodes"]:
        if n["type"] == "source" and n["iat"]["form"] != "const":
            if o.stat(n["id"], "num_item_generated") < len(n["iat"]["vals"]):
                # still blocked: fine only if something downstream is legitimately stuck (checked below via equation)
                pass
    gen = sum(o.stat(n, "num_item_generated") for n in o.nrec)
    disc = sum(o.stat(n, "num_item_discarded") for n in o.nrec)
    recv = sum(o.stat(n, "num_item_received") for n in o.nrec)
    packed_done = 0
    for nid in o.recv:
        for t, iid in o.recv[nid]:
            packed_done += len(getattr(o.run.items.get(iid), "items", []) or [])
    o.probe("liveness_checked")
    # combiners legitimately starve when ingredients run out; only judge graphs without them
    if any(n["type"] == "combiner" for n in o.case["nodes"]):
        return
    horizon = T - meta.get("t_input_end", 0)
    if gen != disc + recv + packed_done:
        # is anything still moving?  a fleet with a long period or slow belts may legitimately still carry items
        if horizon >= 300:
            stuck = {e: er.count for e, er in o.erec.items() if er.count}
            held = {n: list(nr.held) for n, nr in o.nrec.items() if nr.held}
            o.violate("C03", "not-drained", meta.get("template", "?"), f"finite input ended at {meta.get('t_input_end')}, at T={T}: generated {gen}, "
                      f"received {recv}, discarded {disc}; still in edges {stuck}, in nodes {held}")


# ---- C11 / C12 / C14 on the edges of whole factories (same oracles as Layer A, fed from the observer log) ------------------
class _Rec:
    __slots__ = ("name", "put_t", "put_seq", "avail_t", "avail_seq", "avail_pos", "got_t", "got_seq", "d")

    def __init__(self, name):
        self.name = name
        self.put_t = self.put_seq = self.avail_t = self.avail_seq = self.avail_pos = self.got_t = self.got_seq = self.d = None


class _FleetView:
    """What oracle_fleet.check_fleet needs, for one Fleet edge of a factory."""

    def __init__(self, o, eid, recs, hist, T):
        er = o.erec[eid]
        self.cfg = {"transit": er.spec.get("transit", 0), "delay": er.spec.get("delay", 1), "cap": er.cap}
        self.items = {r.name: r for r in recs}
        self.hist = hist

        class _E:
            now = T
        self.env = _E()
        self._o, self._eid = o, eid

    def violate(self, prop, oracle, msg, feat=(), extra=""):
        self._o.violate(prop, oracle, "fleet(in factory)", f"edge {self._eid}: {msg}", extra)

    def probe(self, k):
        self._o.probe(k)


def c13_factory_edge(o, eid, recs, d, slot, Tt, T, lab):
    """C13 for a continuous non-accumulating conveyor inside a factory (real nodes feed and empty it): while the head waits at the
    exit nothing is admitted and nothing advances.  Judged only when no retrieval reservation was held over time, so that
    'the head waits' is exactly [offered, taken)."""
    from .oracle_belt import overlap
    toks = d["toks"]
    for tk, (kind, g_t, g_pos, end_t) in toks.items():
        if kind == "g" and g_t is not None and (end_t if end_t is not None else T) != g_t:
            o.probe("c13_factory_edge_skipped_held_retrieval")
            return
    S = [(r.avail_t, r.got_t if r.got_t is not None else T) for r in recs if r.avail_t is not None]
    S = [(a, b) for a, b in S if b - a > 1e-7]          # (float noise between a timer and a node's clock is not a stall)
    eps = 1e-9
    for tk, (kind, g_t, g_pos, end_t) in toks.items():
        if kind != "p" or g_t is None:
            continue
        for r in recs:
            if r.avail_t is None:
                continue
            a, b = r.avail_t, (r.got_t if r.got_t is not None else T)
            if not b - a > 1e-7:
                continue
            if a + eps < g_t < b - eps or (abs(g_t - a) <= eps and r.avail_pos is not None and g_pos > r.avail_pos):
                o.violate("C13", "nonacc-admission", lab, f"edge {eid}: an entry reservation was granted at {g_t} while the head item {r.name} was waiting at the exit during [{a}, {b})")
                return
    for r in recs:
        if r.avail_t is None:
            exp_min = r.put_t + Tt + overlap(S, r.put_t, T)
            if T > exp_min + 1e-7 * max(1, Tt) and not any(a <= T <= b for a, b in S):
                o.violate("C13", "nonacc-frozen", lab, f"edge {eid}: {r.name} entered at {r.put_t}; with {overlap(S, r.put_t, T)} of stopped belt it should have been offered at {exp_min}, "
                          f"still moving at T={T}")
                return
            continue
        exp = r.put_t + Tt + overlap(S, r.put_t, r.avail_t)
        if abs(r.avail_t - exp) > 1e-7 * max(1, Tt):
            o.violate("C13", "nonacc-frozen", lab, f"edge {eid}: {r.name} entered at {r.put_t}, belt stopped for {overlap(S, r.put_t, r.avail_t)} meanwhile: it must be offered at "
                      f"{exp} (entry + travel {Tt} + stopped time) but was offered at {r.avail_t}")
            return
    o.probe("c13_conveyor_edge_in_factory_checked")


def timed_edges(o, T):
    run = o.run
    per = {}
    k = 0
    for pos, r in enumerate(run.log):
        if r[0] in ("rp", "rg", "grant", "cp", "cg") or (r[0] in ("put", "get") and r[4] is not None):
            dd = per.setdefault(r[3], {"recs": {}, "hist": [], "draws": [], "toks": {}})
            tk = r[4]
            cur = dd["toks"].get(tk)
            if r[0] in ("rp", "rg"):
                dd["toks"][tk] = (r[0][1], None, None, None)
            elif r[0] == "grant" and cur is not None:
                dd["toks"][tk] = (cur[0], r[2], pos, None)
            elif cur is not None and cur[3] is None:
                dd["toks"][tk] = (cur[0], cur[1], cur[2], r[2])
        if r[0] in ("put", "get", "avail"):
            eid = r[3]
            d = per.setdefault(eid, {"recs": {}, "hist": [], "draws": [], "toks": {}})
            iid = r[5] if r[0] != "avail" else r[4]
            rec = d["recs"].get(iid)
            if rec is None:
                rec = d["recs"][iid] = _Rec(iid)
            k += 1
            if r[0] == "put":
                rec.put_t, rec.put_seq = r[2], k
                d["hist"].append(("put", r[1], r[2], iid, r[4]))
            elif r[0] == "get":
                rec.got_t, rec.got_seq = r[2], k
                d["hist"].append(("get", r[1], r[2], iid, r[4]))
            else:
                rec.avail_t, rec.avail_seq, rec.avail_pos = r[2], k, pos
        elif r[0] == "edelay":
            per.setdefault(r[3], {"recs": {}, "hist": [], "draws": [], "toks": {}})["draws"].append(r[4])
    for eid, d in per.items():
        er = o.erec[eid]
        recs = sorted([r for r in d["recs"].values() if r.put_t is not None], key=lambda r: r.put_seq)
        if not recs:
            continue
        if er.type == "buffer":
            spec = er.spec.get("delay", 0)
            const = const_of(spec)
            for i, r in enumerate(recs):
                dd = const if const is not None else (d["draws"][i] if i < len(d["draws"]) else None)
                if dd is None:
                    continue
                ready = r.put_t + dd
                if r.avail_t is not None and r.avail_t != ready:
                    o.violate("C11", "buffer-delay", o.elabel(eid), f"edge {eid}: {r.name} put at {r.put_t} with drawn delay {dd} became retrievable at {r.avail_t}")
                    break
                if r.avail_t is None and T >= ready and T > r.put_t + dd:
                    o.violate("C11", "buffer-delay", o.elabel(eid), f"edge {eid}: {r.name} put at {r.put_t} with drawn delay {dd} is not retrievable at T={T}")
                    break
                if r.got_t is not None and r.got_t < ready:
                    o.violate("C11", "early-get", o.elabel(eid), f"edge {eid}: {r.name} put at {r.put_t} with delay {dd} was taken at {r.got_t}")
                    break
            if const is None and len(d["draws"]) != len(recs):
                o.violate("C11", "delay-draws", o.elabel(eid), f"edge {eid}: {len(d['draws'])} delay draws for {len(recs)} accepted puts")
            o.probe("c11_buffer_edge_in_factory_checked")
        elif er.type == "fleet":
            from .oracle_fleet import check_fleet
            check_fleet(_FleetView(o, eid, recs, d["hist"], T))
            o.probe("c14_fleet_edge_in_factory_checked")
        else:
            spec = er.spec
            slot = (spec.get("item_length", 1) / spec.get("speed", 1)) if er.type == "cconv" else spec.get("delay", 1)
            Tt = slot * er.cap
            lab = o.elabel(eid) + "(in factory)"
            offs = sorted([r for r in recs if r.avail_t is not None], key=lambda r: r.avail_seq)
            if [r.name for r in offs] != [r.name for r in recs][:len(offs)]:
                waited = any(r.avail_t is not None and (r.got_t is None or r.got_t > r.avail_t) for r in recs)
                o.violate("C12", "offer-order", lab, f"edge {eid}: items entered in order {[r.name for r in recs][:12]} but reached the exit in order {[r.name for r in offs][:12]}",
                          ",after-stall" if waited else ",no-stall")
            for a, b in zip(recs, recs[1:]):
                if b.put_t - a.put_t < slot - 1e-9:
                    o.violate("C12", "spacing", lab, f"edge {eid}: {b.name} entered at {b.put_t}, only {b.put_t - a.put_t} after {a.name} (one item length of travel = {slot})")
                    break
            for r in recs:
                if r.avail_t is not None and r.avail_t < r.put_t + Tt - 1e-9:
                    o.violate("C12", "min-travel", lab, f"edge {eid}: {r.name} entered at {r.put_t} and was offered at {r.avail_t}, before the belt travel time {Tt}")
                    break
            if all(r.got_t == r.avail_t for r in recs if r.avail_t is not None):
                for r in recs:
                    if r.avail_t is not None and abs(r.avail_t - (r.put_t + Tt)) > 1e-9 * max(1, Tt):
                        o.violate("C12", "exact-travel", lab, f"edge {eid}: destination took every item at once, yet {r.name} entered at {r.put_t} was offered at {r.avail_t} (travel time {Tt})")
                        break
            o.probe("c12_conveyor_edge_in_factory_checked")
            if er.type == "cconv" and not spec.get("accumulating"):
                c13_factory_edge(o, eid, recs, d, slot, Tt, T, lab)
