"""Evidence files: /verif/evidence/<ID>.json per EVIDENCE.schema.json (level: exploration)."""
import json
import os
import shutil
import subprocess

import fsim

SCHEMA = "/root/.vp/EVIDENCE.schema.json"


def _basic_validate(ev):
    for k in ("property_id", "tier", "seed", "level", "coverage", "wall_s"):
        if k not in ev:
            raise ValueError(f"evidence lacks {k}")
    c = ev["coverage"]
    if not (isinstance(c.get("evaluations"), int) and c["evaluations"] >= 1):
        raise ValueError("evaluations")
    if not (isinstance(c.get("distinct_nontrivial"), int) and c["distinct_nontrivial"] >= 0):
        raise ValueError("distinct_nontrivial")
    if not isinstance(c.get("rule"), str) or not isinstance(c.get("samples"), list) or not c["samples"]:
        raise ValueError("rule/samples")
    if ev["tier"] not in ("quick", "thorough") or not isinstance(ev["seed"], int):
        raise ValueError("tier/seed")


def write(prop, ev):
    _basic_validate(ev)
    d = os.path.join(fsim.VERIF, "evidence")
    os.makedirs(d, exist_ok=True)
    path = os.path.join(d, f"{prop}.json")
    tmp = path + ".tmp"
    with open(tmp, "w") as f:
        json.dump(ev, f, indent=1, sort_keys=True, default=str)
    os.replace(tmp, path)
    return path


def schema_validate(path):
    """Full JSON-schema validation through the tooling venv, when present (selftest / setup)."""
    py = shutil.which("python3-vt")
    if not py or not os.path.exists(SCHEMA):
        return None
    code = ("import json,sys,jsonschema;"
            "jsonschema.validate(json.load(open(sys.argv[1])), json.load(open(sys.argv[2])));print('ok')")
    p = subprocess.run([py, "-c", code, path, SCHEMA], capture_output=True, text=True)
    return p.returncode == 0, p.stdout + p.stderr
