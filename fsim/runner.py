"""Batch driver: seeded search over many short runs on all cores, known-finding matching, shrinking,
replay files, evidence.  Exit protocol: 0 = held on everything explored (KNOWN-FINDING lines allowed),
1 = VIOLATION, 2 = HARNESS-ERROR (never silently 0)."""
import collections
import concurrent.futures as cf
import faulthandler
import gc
import json
import multiprocessing as mp
import os
import signal
import subprocess
import sys
import time
import traceback

import fsim
from . import findings, evidence
from .kernel import HarnessCap
from .rng import derive

RUN_WALL_S = 20


class RunTimeout(Exception):
    pass


def _alarm(sig, frm):
    raise RunTimeout()


def engine(name):
    if name == "A":
        from . import engine_a
        return engine_a
    if name == "B":
        from . import engine_b
        return engine_b
    if name == "BELT":
        from . import engine_belt
        return engine_belt
    if name == "FLEET":
        from . import engine_fleet
        return engine_fleet
    raise KeyError(name)


def _work(args):
    """Worker: run indices [lo, hi) of one population; returns an aggregate."""
    prop, tier, seed, eng_name, lo, hi, opts = args
    fsim.quiet()
    faulthandler.enable()
    eng = engine(eng_name)
    agg = {"runs": 0, "discarded": 0, "faults": collections.Counter(), "probes": collections.Counter(),
           "fps": set(), "abstract": set(), "simtime": 0.0, "events": 0, "maxinst": 0, "nops": 0,
           "viol": {}, "samples": [], "labels": collections.Counter(), "errors": [], "other_props": collections.Counter(),
           "digests": {}}
    signal.signal(signal.SIGALRM, _alarm)
    for idx in range(lo, hi):
        signal.setitimer(signal.ITIMER_REAL, RUN_WALL_S)
        try:
            r = eng.generate_and_run(prop, tier, seed, idx, want_sample=(len(agg["samples"]) < 1 and idx % 7 == 3), **opts)
        except (HarnessCap, RunTimeout) as e:
            agg["discarded"] += 1
            agg["runs"] += 1
            continue
        except Exception:
            agg["errors"].append(f"run {idx}: " + traceback.format_exc())
            if len(agg["errors"]) > 3:
                break
            continue
        finally:
            signal.setitimer(signal.ITIMER_REAL, 0)
        agg["runs"] += 1
        agg["faults"].update(r["faults"])
        agg["probes"].update(r["probes"])
        if r["nontrivial"]:
            agg["fps"].add(r["fp"])
        agg["abstract"] |= r["abstract"]
        agg["simtime"] += r["simtime"]
        agg["events"] += r["events"]
        agg["maxinst"] = max(agg["maxinst"], r["maxinst"])
        agg["nops"] += r["nops"]
        agg["labels"][r["label"]] += 1
        if opts.get("keep_digests"):
            agg["digests"][idx] = r["digest"]
        if "sample" in r and len(agg["samples"]) < 1:
            agg["samples"].append(r["sample"])
        for v in r["viol"]:
            if v["property"] != prop:
                agg["other_props"][v["property"]] += 1
                continue
            key = (v["property"], v["oracle"], v["signature"])
            cur = agg["viol"].get(key)
            size = eng.case_size(r["case"]) if hasattr(eng, "case_size") else len(r["case"].get("ops", []))
            if cur is None:
                agg["viol"][key] = {"count": 1, "v": v, "case": r["case"], "size": size, "idx": idx}
            else:
                cur["count"] += 1
                if size < cur["size"]:
                    cur.update(v=v, case=r["case"], size=size, idx=idx)
        if idx % 64 == 63:
            gc.collect()
    return agg


def merge(total, agg):
    for k in ("runs", "discarded", "simtime", "events", "nops"):
        total[k] += agg[k]
    total["maxinst"] = max(total["maxinst"], agg["maxinst"])
    for k in ("faults", "probes", "labels", "other_props"):
        total[k].update(agg[k])
    total["fps"] |= agg["fps"]
    total["abstract"] |= agg["abstract"]
    total["errors"] += agg["errors"]
    total["digests"].update(agg["digests"])
    if len(total["samples"]) < 3:
        total["samples"] += agg["samples"][: 3 - len(total["samples"])]
    for key, d in agg["viol"].items():
        cur = total["viol"].get(key)
        if cur is None:
            total["viol"][key] = d
        else:
            cur["count"] += d["count"]
            if d["size"] < cur["size"]:
                c = cur["count"]
                cur.update(d)
                cur["count"] = c


def new_total():
    return {"runs": 0, "discarded": 0, "faults": collections.Counter(), "probes": collections.Counter(),
            "fps": set(), "abstract": set(), "simtime": 0.0, "events": 0, "maxinst": 0, "nops": 0,
            "viol": {}, "samples": [], "labels": collections.Counter(), "errors": [], "other_props": collections.Counter(),
            "digests": {}}


def run_population(prop, tier, seed, eng_name, n, jobs, opts=None, chunk=None, deadline=None):
    """Run n seeded cases of one engine on `jobs` processes."""
    opts = opts or {}
    total = new_total()
    if n <= 0:
        return total
    chunk = chunk or max(1, min(500, n // (jobs * 4) or 1))
    if eng_name == "B" and tier == "thorough":
        chunk = min(chunk, 100)         # thorough factories are ~50x slower than quick ones: keep the deadline overshoot small
    tasks = [(prop, tier, seed, eng_name, lo, min(n, lo + chunk), opts) for lo in range(0, n, chunk)]
    if jobs <= 1:
        for t in tasks:
            merge(total, _work(t))
            if deadline and time.time() > deadline:
                break
        return total
    ctx = mp.get_context("fork")
    with cf.ProcessPoolExecutor(max_workers=jobs, mp_context=ctx) as ex:
        futs = [ex.submit(_work, t) for t in tasks]
        try:
            for f in cf.as_completed(futs, timeout=(deadline - time.time() + 120) if deadline else None):
                merge(total, f.result())
                if deadline and time.time() > deadline:
                    for g in futs:
                        g.cancel()
                    total["deadline_hit"] = True
                    break
        except (cf.TimeoutError, cf.process.BrokenProcessPool) as e:
            total["errors"].append(f"worker pool failure: {e!r}")
            for g in futs:
                g.cancel()
            for p in list(getattr(ex, "_processes", {}).values()):
                try:
                    p.kill()
                except Exception:
                    pass
    return total


# --------------------------------------------------------------------------------------------------

def fresh_replay(prop, path):
    """Re-execute a replay file in a fresh interpreter; returns True if it reproduces."""
    cmd = [sys.executable, os.path.join(fsim.VERIF, "check"), prop, "--replay", path]
    env = dict(os.environ)
    env["PYTHONHASHSEED"] = "0"
    p = subprocess.run(cmd, capture_output=True, text=True, timeout=120, env=env)
    return p.returncode == 1 and "VIOLATION" in p.stdout


def write_replay(prop, eng_name, v, case, seed, idx, out_dir=None):
    out_dir = out_dir or os.path.join(fsim.VERIF, "replays", "found")
    os.makedirs(out_dir, exist_ok=True)
    path = os.path.join(out_dir, f"{prop}-{seed}-{idx}-{derive(v['signature']) % 100000:05d}.json")
    with open(path, "w") as f:
        json.dump({"property": prop, "engine": eng_name, "expected": {"oracle": v["oracle"], "signature": v["signature"]},
                   "message": v["message"], "seed": seed, "run": idx, "case": case}, f, indent=1, sort_keys=True)
    return path


def do_replay(prop, path):
    with open(path) as f:
        rp = json.load(f)
    eng = engine(rp["engine"])
    fsim.quiet()
    r = eng.replay(rp["case"])
    hits = [v for v in r["viol"] if v["property"] == prop]
    exp = rp.get("expected", {})
    same = [v for v in hits if v["signature"] == exp.get("signature")]
    for v in hits:
        fsim.say(f"  {v['signature']}: {v['message']}")
    if hits:
        fsim.say(f"VIOLATION property={prop} replay={path}" + ("" if same else "  (different signature than recorded)"))
        return 1
    fsim.say(f"replay {path}: property {prop} held")
    return 0


def c19_cross_phase(prop, tier, seed, digests, jobs, hashseeds=("1", "987654321")):
    """Recompute the digests of the batch in fresh interpreters (other hash seeds, shifted heap); returns mismatches."""
    idxs = sorted(digests)
    if not idxs:
        return [], 0
    lo, hi = idxs[0], idxs[-1] + 1
    per = max(1, (hi - lo + jobs - 1) // max(1, jobs // len(hashseeds)))
    procs = []
    for k, hs in enumerate(hashseeds):
        for a in range(lo, hi, per):
            b = min(hi, a + per)
            env = dict(os.environ)
            env["PYTHONHASHSEED"] = hs
            cmd = [sys.executable, os.path.join(fsim.VERIF, "tools", "c19_worker.py"), "--garbage", str(5000 + 9973 * k),
                   "--range", prop, tier, str(seed), str(a), str(b)]
            procs.append((hs, subprocess.Popen(cmd, stdout=subprocess.PIPE, stderr=subprocess.PIPE, text=True, env=env)))
    bad = []
    n = 0
    for hs, p in procs:
        out, err = p.communicate(timeout=1800)
        if p.returncode != 0:
            raise RuntimeError("c19 worker failed: " + err[-500:])
        got = json.loads(next(l for l in out.splitlines() if l.startswith("DIGESTS "))[8:])
        for k, d in got.items():
            n += 1
            if int(k) in digests and digests[int(k)] != d:
                bad.append((int(k), hs, d, digests[int(k)]))
    return bad, n


def c19_find_prefix(prop, tier, seed, idx, back=6):
    """A digest of the batch differs from the one a fresh interpreter computes for the same case, and the case alone does not show
    it: then state leaks from the models the batch worker ran before.  Look for a short list of predecessor cases that, run first
    in one fresh interpreter, change the digest of case `idx`.  Returns (case, prefix_cases) or None."""
    import tempfile
    from . import gen_b, props
    from .rng import rng_for

    def mk(i):
        c = gen_b.make_case(prop, rng_for(seed, tier, prop, "B", i), tier, props.c19_opts())
        c["seed"], c["run"] = seed, i
        return c

    def dig(case, prefix):
        fd, path = tempfile.mkstemp(suffix=".json", dir="/dev/shm" if os.path.isdir("/dev/shm") else None)
        try:
            with os.fdopen(fd, "w") as f:
                json.dump(dict(case, prefix_cases=prefix), f)
            env = dict(os.environ)
            env["PYTHONHASHSEED"] = "0"
            p = subprocess.run([sys.executable, os.path.join(fsim.VERIF, "tools", "c19_worker.py"), "--case", path], capture_output=True, text=True, timeout=300, env=env)
            if p.returncode != 0:
                raise RuntimeError("c19 worker failed: " + p.stderr[-400:])
            return next(l for l in p.stdout.splitlines() if l.startswith("DIGEST "))[7:]
        finally:
            os.unlink(path)

    case = mk(idx)
    alone = dig(case, [])
    prev = [mk(i) for i in range(max(0, idx - back), idx)]
    cands = [[c] for c in reversed(prev)] + [[c, c] for c in reversed(prev)]
    acc = []
    for c in reversed(prev):
        acc = [c, c] + acc              # the batch worker runs every case twice (in-process rerun) before the next one
        cands.append(list(acc))
    for pre in cands:
        if dig(case, pre) != alone:
            return case, pre
    return None
