"""Engine wrapper for Layer B (whole factories)."""
import copy

from . import factory, gen_b, oracles_b, oracles_b_final
from .rng import rng_for, digest
from .kernel import HarnessCap

NAME = "B"


def execute(case):
    run = factory.FactoryRun(case)
    ob = oracles_b.Oracles(run)
    try:
        run.build()
    except HarnessCap:
        raise
    except Exception as e:
        run.build_error = e
        ob.on_build_error(e)
        return run, ob
    ob.attach()
    t1 = case.get("edge_report_at")
    if t1 is not None and 0 < t1 < case["T"]:
        # a report in the middle of the run: the edges' time averages are asked for at t1, then the simulation goes on
        run.run(t1)
        if run.crash is None:
            oracles_b_final.edge_report(ob, t1, "mid-run")
    run.run(case["T"])
    ob.finish()
    return run, ob


def full_digest(run):
    """Digest of the complete sequence of item movements + every statistic of every node and edge."""
    def norm(x):
        if isinstance(x, dict):
            return tuple(sorted((str(k), norm(v)) for k, v in x.items()))
        if isinstance(x, (list, tuple)):
            return tuple(norm(v) for v in x)
        if isinstance(x, float):
            return repr(x)
        if isinstance(x, (int, str, bool)) or x is None:
            return x
        return type(x).__name__
    st = []
    for nid in sorted(run.nodes):
        st.append((nid, norm(getattr(run.nodes[nid], "stats", {})), getattr(run.nodes[nid], "state", None)))
    for eid in sorted(run.edges):
        st.append((eid, norm(getattr(run.edges[eid], "stats", {})), getattr(run.edges[eid], "state", None),
                   tuple(getattr(x, "id", None) for x in run.edge_items(eid))))
    crash = (run.crash[0], run.crash[2]) if run.crash else None      # the message may contain object addresses
    return digest((run.log, st, crash))


def c19_inprocess(case, run, ob):
    """Same model, same parameters, same seed, once more in this interpreter."""
    d1 = full_digest(run)
    run2, ob2 = execute(copy.deepcopy(case))
    d2 = full_digest(run2)
    ob.probe("c19_inprocess_rerun")
    if d1 != d2:
        n = next((i for i, (a, b) in enumerate(zip(run.log, run2.log)) if a != b), min(len(run.log), len(run2.log)))
        ob.violate("C19", "in-process-rerun", case.get("meta", {}).get("template", "?"),
                   f"two runs of the same model in one interpreter differ; first differing history record #{n}: "
                   f"{run.log[n] if n < len(run.log) else None} vs {run2.log[n] if n < len(run2.log) else None}")
    return d1


def c19_cross(case, d1, ob, hashseeds=("1", "987654321")):
    """Same model in fresh interpreters with other hash seeds and a shifted heap."""
    import json, os, subprocess, sys, tempfile
    import fsim
    fd, path = tempfile.mkstemp(suffix=".json", dir="/dev/shm" if os.path.isdir("/dev/shm") else None)
    try:
        with os.fdopen(fd, "w") as f:
            json.dump(case, f)
        for i, hs in enumerate(hashseeds):
            env = dict(os.environ)
            env["PYTHONHASHSEED"] = hs
            p = subprocess.run([sys.executable, os.path.join(fsim.VERIF, "tools", "c19_worker.py"), "--case", path, "--garbage", str(1000 + 7777 * i)],
                               capture_output=True, text=True, timeout=120, env=env)
            if p.returncode != 0:
                raise RuntimeError("c19 worker failed: " + p.stderr[-400:])
            d = next(l for l in p.stdout.splitlines() if l.startswith("DIGEST "))[7:]
            ob.probe("c19_fresh_interpreter_runs")
            if d != d1:
                ob.violate("C19", "fresh-interpreter", case.get("meta", {}).get("template", "?"),
                           f"history/statistics digest {d} in a fresh interpreter (PYTHONHASHSEED={hs}) differs from {d1} in this one")
    finally:
        os.unlink(path)


def _result(run, ob, case):
    log = run.log
    nfault = ob.faults
    kinds = tuple(sorted((n["type"], n.get("blocking", None), str(n.get("out_sel"))[:5], str(n.get("in_sel"))[:5]) for n in case["nodes"]))
    shape = tuple(sorted((e["type"], str(e["cap"])) for e in case["edges"]))
    big = {}
    prev = None
    for r in log:
        k = (r[0], run.ntype.get(r[-1] if r[0] in ("rp", "rg") else (r[6] if len(r) > 6 else None), "?")) if r[0] in ("put", "get", "cp", "cg", "rp", "rg") else (r[0], "")
        if prev is not None:
            big[(prev, k)] = big.get((prev, k), 0) + 1
        prev = k
    fp = hash((kinds, shape, tuple(sorted((k, min(v, 3)) for k, v in big.items())))) & 0xFFFFFFFFFFFF
    res = {
        "viol": [v for v in ob.viol],
        "faults": dict(nfault),
        "probes": dict(ob.probes),
        "fp": fp,
        "nontrivial": ob.nontrivial(),
        "simtime": float(run.env.now),
        "events": run.env.seq,
        "maxinst": run.env.max_in_instant,
        "nops": len(log),
        "abstract": set(),
        "label": case.get("meta", {}).get("template", "?"),
        "digest": digest([r for r in log]),
        "case": copy.deepcopy(case) if ob.viol else None,
    }
    return res


def generate_and_run(prop, tier, seed, idx, want_sample=False, **opts):
    rng = rng_for(seed, tier, prop, "B", idx)
    case = gen_b.make_case(prop, rng, tier, opts)
    case["seed"], case["run"] = seed, idx
    run, ob = execute(case)
    d = None
    if opts.get("c19"):
        d = c19_inprocess(case, run, ob)
    r = _result(run, ob, case)
    if d is not None:
        r["digest"] = d
    if want_sample:
        r["sample"] = case
    return r


def replay(case):
    case = copy.deepcopy(case)
    prefix = case.pop("prefix_cases", [])
    for pc in prefix:                   # C19: other models that ran earlier in the same interpreter (state leaking between runs)
        execute(copy.deepcopy(pc))
    run, ob = execute(case)
    if case.get("meta", {}).get("prop") == "C19":
        d = c19_inprocess(case, run, ob)
        c19_cross(case, d, ob)
    if prefix:
        case["prefix_cases"] = prefix
    return _result(run, ob, case)


def case_size(case):
    return len(case["nodes"]) * 10 + len(case["edges"]) * 10 + sum(len(n.get("iat", {}).get("vals", [])) for n in case["nodes"] if isinstance(n.get("iat"), dict))


def has_key(res, key):
    return any((v["property"], v["oracle"], v["signature"]) == key for v in res["viol"])


def shrink(case, key, budget=120):
    """Greedy simplification: shorter inputs, simpler parameters, smaller end time; keep only if the same
    (property, oracle, signature) recurs."""
    best = copy.deepcopy(case)
    n = [0]

    def ok(c):
        if n[0] >= budget:
            return False
        n[0] += 1
        try:
            return has_key(replay(c), key)
        except HarnessCap:
            return False
        except Exception:
            return False

    def attempt(mut):
        c = copy.deepcopy(best)
        if mut(c) is False:
            return False
        if ok(c):
            best.clear()
            best.update(c)
            return True
        return False

    # shorten inputs
    for i, nd in enumerate(best["nodes"]):
        if nd["type"] == "source" and isinstance(nd["iat"], dict) and nd["iat"]["form"] != "const":
            while len(best["nodes"][i]["iat"]["vals"]) > 1:
                half = max(1, len(best["nodes"][i]["iat"]["vals"]) // 2)

                def m(c, i=i, half=half):
                    c["nodes"][i]["iat"]["vals"] = c["nodes"][i]["iat"]["vals"][:half]
                if not attempt(m):
                    break
    # end time
    for T in (1, 2, 5, 10, 20, 40):
        if T < best["T"]:
            if attempt(lambda c, T=T: c.__setitem__("T", T)):
                break
    # default order
    attempt(lambda c: c.__setitem__("order", [x["id"] for x in c["nodes"]] + [x["id"] for x in c["edges"]]))
    attempt(lambda c: c.__setitem__("connect_order", [x["id"] for x in c["edges"]]))
    # simplify node parameters
    for i, nd in enumerate(best["nodes"]):
        for field, val in (("setup", 0), ("wc", 1), ("out_sel", "FIRST_AVAILABLE"), ("in_sel", "FIRST_AVAILABLE"), ("pdelay", 1), ("pdelay", 0)):
            if field in nd and nd[field] != val:
                attempt(lambda c, i=i, field=field, val=val: c["nodes"][i].__setitem__(field, val))
    for i, ed in enumerate(best["edges"]):
        for field, val in (("delay", 0 if ed["type"] == "buffer" else 1), ("mode", "FIFO"), ("transit", 0), ("cap", 1), ("speed", 1)):
            if field in ed and ed[field] != val:
                attempt(lambda c, i=i, field=field, val=val: c["edges"][i].__setitem__(field, val))
    best["shrink_runs"] = n[0]
    return best
