"""Per-property plan: which simulated populations decide it, how many runs per tier, evidence texts."""

# (engine, quick runs, thorough runs, engine options)
PLAN = {
    "C01": [("A", 40000, 3000000, {}), ("B", 2000, 200000, {})],
    "C02": [("A", 40000, 3000000, {}), ("BELT", 15000, 1500000, {})],
    "C03": [("B", 4000, 400000, {})],
    "C04": [("A", 40000, 3000000, {}), ("BELT", 15000, 1500000, {})],
    "C05": [("A", 40000, 3000000, {})],
    "C06": [("A", 40000, 3000000, {}), ("BELT", 15000, 1500000, {}), ("B", 2000, 200000, {})],
    "C07": [("A", 20000, 1500000, {})],
    "C08": [("B", 4000, 400000, {"p_chaos_consumer": 0.4})],
    "C09": [("B", 4000, 400000, {"p_chaos_consumer": 0.45})],
    "C10": [("B", 4000, 400000, {"p_chaos_consumer": 0.4})],
    "C11": [("A", 30000, 2500000, {}), ("B", 1500, 150000, {})],
    "C12": [("BELT", 30000, 3000000, {}), ("A", 20000, 2000000, {}), ("B", 1500, 150000, {})],
    "C13": [("BELT", 30000, 3000000, {}), ("B", 2000, 200000, {"conv_bias": True, "p_chaos_consumer": 0.4})],
    "C14": [("A", 30000, 3000000, {}), ("B", 1500, 150000, {})],
    "C15": [("B", 4000, 400000, {})],
    "C16": [("B", 4000, 400000, {})],
    "C17": [("B", 4000, 400000, {})],
    "C18": [("A", 20000, 2000000, {}), ("B", 2500, 250000, {})],
    "C19": [("B", 800, 20000, {"c19": True, "keep_digests": True, "conv_bias_p": 0.3})],
    "C20": [("B", 6000, 500000, {"wide": True, "invalid": 0.3}), ("A", 10000, 1000000, {"kinds": ["fls", "flt", "cconv", "sconv", "buf"]})],
}

THOROUGH_BUDGET_S = 900
QUICK_BUDGET_S = 100

RULE = {
    "A": ("Layer A: one real store/edge object, 1-6 simulated client processes; each run = swarm configuration (store class, "
          "capacity, mode, priorities alphabet, delay lattice, op-mix, fault kinds) + 5-60 (thorough: -150) seeded, state-aware "
          "ops (reserve/put/get/cancel of pending and granted tokens, misuse, time advance landing on or just before timers). "
          "A run is NON-TRIVIAL iff at least one fault fired (cancel of pending/granted reservation, misuse, arrival while a "
          "retrieval is reserved) AND at least one request had to wait. DISTINCT = distinct hash of the run's sequence of "
          "(op kind, abstract store state (in-transit, available, granted puts, granted gets, pending puts, pending gets))."),
    "B": ("Layer B: whole factory of real Source/Machine/Splitter/Combiner/Sink nodes and Buffer/Fleet/conveyor edges, random "
          "topology, policies, capacities, delays from small lattices, construction order permuted, optional chaos peers "
          "(stalling / bursting stub nodes). NON-TRIVIAL iff at least one item was blocked, discarded or a reservation was "
          "cancelled by a node. DISTINCT = distinct hash of (topology shape, policy/blocking vector, multiset of "
          "(node class, event kind) bigrams of the store-level history)."),
    "BELT": ("Belt scenarios: one real conveyor edge (slotted/continuous, accumulating or not) with its behaviour() state machine, "
             "a producer client (regular/bursty/irregular gaps) and a consumer client (immediate/delayed/stall-release). "
             "NON-TRIVIAL iff a stall happened with >=1 item moving behind the head or an entry had to wait for spacing. "
             "DISTINCT = distinct hash of the sequence of (event kind, #moving, #waiting) at every put/get/offer."),
    "FLEET": ("Fleet scenarios: one real Fleet/FleetStore, loader client and consumer client; loads before, during a trip and in the "
              "departure instant. NON-TRIVIAL iff >=2 items were loaded and at least one load happened while a trip was under way "
              "or in a departure instant. DISTINCT = distinct hash of the sequence of (event kind, #waiting, #in transit, #delivered)."),
}

COMPONENTS_REAL = ["simpy 4.1.2 kernel (event heap, Process, Condition, Interruption, Resource)",
                   "factorysimpy.base.* (all store classes)", "factorysimpy.edges.* (Buffer, Fleet, both ConveyorBelt classes)",
                   "factorysimpy.nodes.* (Source, Machine, Splitter, Combiner, Sink)", "factorysimpy.helper.*, factorysimpy.utils.utils"]
COMPONENTS_STUB = ["client processes (generators hosted in real simpy.Process objects)", "chaos peers (minimal Node subclasses using only the public edge API)",
                   "user callables (delays, policies, filters) drawn from the run's PRNG", "builtins.print (no-op)",
                   "inert Node end points of an edge simulated on its own"]

FAULTS_NOT_INJECTED = ("message loss/duplication, partitions, disk errors, clock skew, allocation failure: the library has no "
                       "network, storage or second clock; nothing in it could meet them")


def c19_opts():
    """Generator options of the C19 population (the fresh-interpreter workers must generate the very same cases)."""
    return dict(PLAN["C19"][0][3])
