"""Seed derivation.  One integer (VERIF_SEED) decides everything: run i of property P in tier T uses
random.Random(derive(seed, T, P, i)); labelled sub-streams keep unrelated choices independent."""
import hashlib
import random


def derive(*parts):
    h = hashlib.blake2b(digest_size=8)
    for p in parts:
        h.update(repr(p).encode())
        h.update(b"\x00")
    return int.from_bytes(h.digest(), "big")


def rng_for(*parts):
    return random.Random(derive(*parts))


class Streams:
    """Independent labelled sub-streams of one run seed."""

    def __init__(self, seed):
        self.seed = seed
        self._s = {}

    def __getitem__(self, label):
        r = self._s.get(label)
        if r is None:
            r = self._s[label] = random.Random(derive(self.seed, label))
        return r


LATTICES = {
    "dyadic": [0, 0.25, 0.5, 1, 1.5, 2, 3],
    "decimal": [0, 0.1, 0.2, 0.3, 0.7, 1.1],
    "coprime": [0.37, 1.13, 0.3333333333333333, 2.71],
    "unit": [0, 1, 1, 2],
}


def digest(obj):
    return hashlib.blake2b(repr(obj).encode(), digest_size=12).hexdigest()
