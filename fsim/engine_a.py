"""Engine wrapper for Layer A: generate+run, replay, twin check (C07 / C11 probe neutrality), shrinking."""
import copy

from . import layer_a, gen_a
from .rng import rng_for, digest
from .kernel import HarnessCap

NAME = "A"


def _result(h, case, prop):
    ops = h.ops_done
    waits = h.probes.get("put_request_waits", 0) + h.probes.get("get_request_waits", 0)
    nfault = sum(h.faults.values())
    res = {
        "viol": [v.to_json() for v in h.viol],
        "faults": dict(h.faults),
        "probes": dict(h.probes),
        "fp": hash(tuple(h.fp)) & 0xFFFFFFFFFFFF,
        "nontrivial": bool(waits and nfault),
        "simtime": float(h.env.now),
        "events": h.env.seq,
        "maxinst": h.env.max_in_instant,
        "nops": len(ops),
        "abstract": {hash(a) & 0xFFFFFFFF for a in h.abstract},
        "label": h.label,
        "digest": digest((h.obs, h.hist)),
        "case": None,
    }
    if h.viol:
        c = dict(case)
        c["ops"] = [list(o) for o in ops]
        res["case"] = c
    return res


def _sample(case, h):
    c = dict(case)
    c["ops"] = [list(o) for o in h.ops_done]
    return c


def generate_and_run(prop, tier, seed, idx, kind=None, want_sample=False, kinds=None, **_):
    rng = rng_for(seed, tier, prop, "A", idx)
    if kinds:
        kind = rng.choice(kinds)
    case, gen = gen_a.make_case(prop, rng, tier, kind)
    case["seed"] = seed
    case["run"] = idx
    h = layer_a.run_case(case, gen=gen)
    if not h.viol and h.misuse_ok and not h.stopped:
        twin_check(h, case, rng)
    if not h.viol and prop == "C11" and not h.stopped and h.probes.get("c11_probe"):
        probe_neutral(h, case, rng)
    r = _result(h, case, prop)
    if want_sample:
        r["sample"] = _sample(case, h)
    return r


def replay(case):
    case = copy.deepcopy(case)
    h = layer_a.run_case(case, gen=None)
    if not h.viol and h.misuse_ok and not h.stopped:
        twin_check(h, case, None)
    if not h.viol and not h.stopped and h.probes.get("c11_probe"):
        probe_neutral(h, case, None)
    r = _result(h, case, case.get("meta", {}).get("prop"))
    return r


def _cmp_obs(h, ops, j, what):
    """Re-run without op j; everything observable afterwards must be identical."""
    case2 = dict(h.case)
    case2["ops"] = ops[:j] + ops[j + 1:]
    h2 = layer_a.run_case(case2, gen=None)
    a, b = h.obs, h2.obs
    if h2.viol:
        return None  # the twin has its own problem; judged elsewhere
    # the rejected call itself must not change any token state / occupancy
    if j > 0 and a[j][2:] != a[j - 1][2:]:
        return f"{what} at op {j} {ops[j]} changed observable state: before {a[j-1][2:]} after {a[j][2:]}"
    if len(a) != len(b) + 1:
        return f"{what} at op {j} {ops[j]}: run lengths differ ({len(a)} vs {len(b)}+1)"
    for i in range(j + 1, len(a)):
        if a[i] != b[i - 1]:
            return (f"{what} at op {j} {ops[j]} is not side-effect free: observation after op {i} "
                    f"{ops[i] if i < len(ops) else 'final'} is {a[i]} but {b[i-1]} in the twin run without the call")
    return None


def twin_check(h, case, rng):
    ops = [list(o) for o in h.ops_done]
    js = list(h.misuse_ok)
    if len(js) > 3:                      # deterministic choice (generation and replay must check the same calls)
        js = [js[0], js[len(js) // 2], js[-1]]
    for j in js:
        why = _cmp_obs(h, ops, j, "rejected ill-formed call")
        h.probe("c07_twin_runs")
        if why:
            h.opi = j
            try:
                h.violate("C07", "side-effect:" + ops[j][0], why, feat=())
            except layer_a.Stop:
                pass
            return


def probe_neutral(h, case, rng):
    """C11 self-check of the oracle: the probe reservations (issued and withdrawn at once) must not perturb
    the run, otherwise the probe could hide or create behaviour.  A perturbation is a C04/C07-class effect of
    the store (cancel of a reservation re-ordering something), reported under C11.probe-perturbs."""
    ops = [list(o) for o in h.ops_done]
    js = [i for i, o in enumerate(ops) if o[0] == "probe"]
    if not js:
        return
    j = js[len(js) // 2]
    why = _cmp_obs(h, ops, j, "probe (reserve+cancel)")
    h.probe("c11_probe_twin_runs")
    if why:
        h.opi = j
        try:
            h.violate("C11", "probe-perturbs", why, feat=("cg", "cp"))
        except layer_a.Stop:
            pass


def has_key(res, key):
    return any((v["property"], v["oracle"], v["signature"]) == key for v in res["viol"])


def shrink(case, key, budget=400):
    """ddmin over the op list; keep a candidate only if the same (property, oracle, signature) recurs."""
    best = copy.deepcopy(case)
    n = [0]

    def fails(ops, extra=None):
        if n[0] >= budget:
            return False
        n[0] += 1
        c = dict(best)
        c["ops"] = ops
        if extra:
            c.update(extra)
        try:
            return has_key(replay(c), key)
        except HarnessCap:
            return False

    ops = best["ops"]
    # cut the tail after the violating op first
    gran = 2
    while len(ops) >= 2 and n[0] < budget:
        chunk = max(1, len(ops) // gran)
        reduced = False
        i = 0
        while i < len(ops):
            cand = ops[:i] + ops[i + chunk:]
            if cand and fails(cand):
                ops = cand
                gran = max(gran - 1, 2)
                reduced = True
            else:
                i += chunk
        if not reduced:
            if chunk == 1:
                break
            gran = min(len(ops), gran * 2)
    best["ops"] = ops
    if best.get("final_adv", 0) and fails(ops, {"final_adv": 0}):
        best["final_adv"] = 0
    # simplify arguments: priorities -> 0, delays -> 0/1
    for i, o in enumerate(list(ops)):
        if n[0] >= budget:
            break
        o2 = list(o)
        if o[0] in ("rp", "rg") and o[2] != 0:
            o2[2] = 0
        elif o[0] == "put" and o[4] not in (0, 1):
            o2[4] = 1
        elif o[0] == "step" and o[1] != 1:
            o2[1] = 1
        elif o[0] == "adv" and o[1] not in (0, 1):
            o2[1] = 1
        else:
            continue
        cand = ops[:i] + [o2] + ops[i + 1:]
        if fails(cand):
            ops = cand
    best["ops"] = ops
    best["shrink_runs"] = n[0]
    return best
