"""Layer A - protocol simulation of ONE real store / edge under K simulated client processes.

A *case* is a JSON-able dict: {"layer":"A","kind":..,"cfg":{..},"nclients":K,"ops":[...],"final_adv":x}.
`run_case(case)` executes the op list against the real object inside a SimEnv and evaluates every Layer-A
oracle while it runs; `gen=...` lets a state-aware generator append ops on the fly (the executed ops are
recorded, so a generated run and its replay are the same function of the op list).

Op language (lists, explicit token / item names so that dropped ops degrade to no-ops when shrinking):
  ["rp", c, prio, tok]                 reserve_put by client c
  ["rg", c, prio, fspec, tok]          reserve_get; fspec None | ["tag", v]
  ["put", c, tok, item, delay, tag]    put with token `tok`
  ["get", c, tok]                      get
  ["cp", c, tok] / ["cg", c, tok]      cancel put / get reservation (pending or granted)
  ["adv", dt, "after"|"before"]        let time pass; "before": arrive at t+dt ahead of that instant's timers
  ["step", n]                          process up to n kernel events of the current instant (calls land between same-instant events)
  ["probe"]                            can_put/can_get/occupancy + probe reservations (C11)
Special token names: "@fresh" (an event nobody issued), "@none".
Whether a put/get/cancel is well-formed is decided from the harness' own view of the token at the
moment of the call; ill-formed calls are the "misuse" fault (C07).
"""
from heapq import heappush
from fractions import Fraction

from simpy.events import URGENT

from .kernel import SimEnv, INF, Livelock, HarnessCap
from . import adapters
from .bindmodel import BindModel


class Viol:
    __slots__ = ("prop", "oracle", "sig", "msg", "seq", "t", "opi")

    def __init__(self, prop, oracle, sig, msg, seq, t, opi):
        self.prop, self.oracle, self.sig, self.msg, self.seq, self.t, self.opi = prop, oracle, sig, msg, seq, t, opi

    def key(self):
        return (self.prop, self.oracle, self.sig)

    def to_json(self):
        return {"property": self.prop, "oracle": self.oracle, "signature": self.sig, "message": self.msg,
                "seq": self.seq, "time": self.t, "op_index": self.opi}


class Tok:
    __slots__ = ("name", "kind", "c", "prio", "fspec", "pred", "mpred", "ev", "arr", "state", "item", "granted_at", "granted_seq",
                 "issued_at")

    def __init__(self, name, kind, c, prio, fspec=None):
        self.name, self.kind, self.c, self.prio, self.fspec = name, kind, c, prio, fspec
        self.pred = None
        self.mpred = None
        self.ev = None
        self.arr = 0
        self.state = "new"      # new -> pending -> granted -> used | cancelled ; transient: using, cancelling
        self.item = None
        self.granted_at = None
        self.granted_seq = None
        self.issued_at = None


class ItemRec:
    __slots__ = ("name", "obj", "put_t", "put_seq", "d", "ready_at", "avail_t", "avail_seq", "state", "got_t", "got_seq", "tag",
                 "first_grant_t")

    def __init__(self, name, obj, tag):
        self.name, self.obj, self.tag = name, obj, tag
        self.put_t = self.put_seq = self.d = self.ready_at = None
        self.avail_t = self.avail_seq = None
        self.state = "new"      # new -> inside -> got
        self.got_t = self.got_seq = None
        self.first_grant_t = None


def mk_pred(fspec):
    if fspec is None:
        return None
    if fspec[0] == "tag":
        v = fspec[1]
        return lambda it, _v=v: getattr(it, "tag", None) == _v
    raise ValueError(fspec)


def norm_msg(e, n=48):
    """Stable head of an exception message (no addresses, ids, numbers) for signatures."""
    import re
    m = re.split(r"[0-9<\[\(\{'\"]", str(e), maxsplit=1)[0].strip(" :,-")
    return m[:n]


class Stop(Exception):
    """Run ended early because a violation makes the remaining state meaningless."""


class HarnessA:
    def __init__(self, case, gen=None, probes=None):
        self.case = case
        self.kind = case["kind"]
        self.cfg = case["cfg"]
        self.K = case["nclients"]
        self.env = SimEnv(livelock_cap=case.get("livelock_cap", 20000), step_cap=case.get("step_cap", 200000))
        self.env.auto_instant_end = False
        self.ad = adapters.make(self.env, self.kind, self.cfg)
        self.cap = self.ad.cap
        self.label = self.ad.label()
        self.toks = {}
        self.items = {}
        self.byobj = {}             # id(obj) -> ItemRec (objects are kept alive by self.items)
        self.viol = []
        self.obs = []               # per-op observations (twin comparison, digest)
        self.hist = []              # (what, seq, t, ...) records for history oracles
        self.arr = 0
        self.gseq = 0
        self.held = 0
        self.opi = -1
        self.ops_done = []
        self.gen = gen
        self.bind = BindModel(self.ad.mode)
        self.feat = {"cg": 0, "aw": 0, "multi": 0, "cp": 0, "mis": 0}
        self.faults = {}            # fault kind -> fired count
        self.probes = probes if probes is not None else {}
        self.avail_seq = 0
        self.integ = Fraction(0)    # integral of held(t) dt (exact)
        self.integ_t = 0
        self.stopped = False
        self.misuse_ok = []         # op indices of ill-formed calls that were correctly rejected
        self.abstract = set()
        self.fp = []
        self.last_grant_kind = None
        self._done = True
        self.mail = [None] * self.K
        self.env.after_event.append(self.on_event)
        for c in range(self.K):
            self.env.process(self._client(c))
        # start-up: process the Initialize events of clients and of the component's own processes
        self._guard(self._startup)

    # ------------------------------------------------------------------------------------------
    def _startup(self):
        env = self.env
        while env.peek() <= 0 and any(m is None for m in self.mail):
            env.step()

    def _client(self, c):
        env = self.env
        while True:
            ev = env.event()
            self.mail[c] = ev
            fn = yield ev
            fn()
            self._done = True

    def call(self, c, fn):
        """Deliver `fn` to client c: it runs inside that client's process, ahead of the NORMAL events of
        this instant (URGENT), exactly like a user process whose own wake-up was scheduled earlier."""
        env = self.env
        ev = self.mail[c]
        self.mail[c] = None
        ev._ok = True
        ev._value = fn
        self._done = False
        heappush(env._queue, (env._now, URGENT, next(env._eid), ev))
        while not self._done:
            env.step()

    # ------------------------------------------------------------------------------------------
    def fault(self, k):
        self.faults[k] = self.faults.get(k, 0) + 1

    def probe(self, k):
        self.probes[k] = self.probes.get(k, 0) + 1

    def featstr(self, keys=("cg", "aw")):
        return ",".join(f"{k}={1 if self.feat[k] else 0}" for k in keys)

    def violate(self, prop, oracle, msg, feat=("cg", "aw"), stop=False, extra=""):
        sig = f"{prop}|{oracle}|{self.label}|{self.featstr(feat)}{extra}"
        v = Viol(prop, oracle, sig, msg, self.env.seq, self.env.now, self.opi)
        if not any(x.key() == v.key() for x in self.viol):
            self.viol.append(v)
        if oracle.split(":")[0] in ("put-failed", "get-raised", "cancel-raised", "reserve_put-raised", "reserve_get-raised") and ":falsy" not in oracle:
            # a real node making this well-formed call would die with the exception: it would escape env.step() (C20)
            v2 = Viol("C20", "call-crash:" + oracle, f"C20|call-crash:{oracle}|{self.label}|", msg, self.env.seq, self.env.now, self.opi)
            if not any(x.key() == v2.key() for x in self.viol):
                self.viol.append(v2)
        if stop:
            self.stopped = True
            raise Stop()

    def _guard(self, f, *a):
        """Run harness stepping code; classify what escapes env.step()."""
        try:
            f(*a)
        except Stop:
            pass
        except (Livelock,) as e:
            self.viol.append(Viol("C20", "livelock", f"C20|livelock|{self.label}|", str(e), self.env.seq, self.env.now, self.opi))
            self.stopped = True
        except HarnessCap:
            raise
        except Exception as e:  # an exception that escaped env.step(): a component process crashed
            cause = e
            while cause.__cause__ is not None:      # simpy re-creates the exception at every process boundary
                cause = cause.__cause__
            tb = cause.__traceback__
            where = "?"
            while tb is not None:
                fn = tb.tb_frame.f_code.co_filename
                if "factorysimpy" in fn:
                    where = f"{fn.split('factorysimpy/')[-1]}:{tb.tb_frame.f_code.co_name}"
                tb = tb.tb_next
            if where == "?":
                raise                  # not from the code under test -> harness error
            msg = f"{type(e).__name__}: {e} escaped a component process at {where}"
            prop = "C01" if "exceeds capacity" in str(e) else self.crash_prop()
            self.viol.append(Viol(prop, "process-crash", f"{prop}|process-crash:{type(e).__name__}@{where}|{self.label}|{self.featstr()}",
                                  msg, self.env.seq, self.env.now, self.opi))
            self.viol.append(Viol("C20", "process-crash", f"C20|process-crash:{type(e).__name__}@{where}|{self.label}|",
                                  msg, self.env.seq, self.env.now, self.opi))
            self.stopped = True

    def crash_prop(self):
        t = self.ad.timed
        return {"fleet": "C14", "belt": "C13", "delay": "C11"}.get(t, "C02")

    # ------------------------------------------------------------------------------------------
    # grant bookkeeping
    def _reserving(self, t):
        """While a reserve_* call runs, hook the very first event the store creates (the token) at creation time,
        so that a grant of the new token inside the call is seen in its true order relative to other grants."""
        import simpy
        env = self.env
        state = {"n": 0}

        def factory(_t=t, _state=state):
            ev = simpy.Event(env)
            if _state["n"] == 0:
                _t.ev = ev
                self._hook(_t, creating=True)
            _state["n"] += 1
            return ev
        env.event = factory

    def _reserved(self, t, ev):
        del self.env.event
        if t.ev is not ev:
            # unexpected: the token is not the first event created; fall back to after-the-fact registration
            t.ev = ev
            if ev.triggered and t.state == "pending":
                self._granted(t, True)
            elif not ev.triggered:
                self._hook(t)

    def _hook(self, t, creating=False):
        ev = t.ev
        orig = ev.succeed

        def hooked(value=None, _t=t, _orig=orig, _imm=creating):
            r = _orig(value)
            if _t.state in ("pending", "cancelling"):
                self._granted(_t, _imm and self._in_reserve is _t)
            return r
        ev.succeed = hooked

    def _granted(self, t, immediate):
        env = self.env
        was_cancelling = t.state == "cancelling"
        t.state = "granted" if not was_cancelling else "cancelling"
        self.gseq += 1
        t.granted_seq = self.gseq
        t.granted_at = env.now
        if self.ad.timed is not None and not self.bind.broken:
            self.scan_ready()           # availability that preceded this grant inside the same kernel event is logged first
        self.hist.append(("grant", env.seq, env.now, t.name, t.kind, immediate))
        # C05: nobody earlier in service order may still be pending
        for p in self.toks.values():
            if p.kind == t.kind and p.state == "pending" and p is not t and (p.prio, p.arr) < (t.prio, t.arr):
                self.violate("C05", "order", f"{t.name}(prio={t.prio},arr={t.arr}) granted while {p.name}(prio={p.prio},arr={p.arr}) "
                             f"of the same kind is still pending", feat=("cg", "cp"))
                break
        if t.kind == "g" and self.kind != "prs" and not self.bind.broken:
            self.scan_ready()
            ngr = sum(1 for q in self.toks.values() if q.kind == "g" and q.state == "granted")
            if ngr >= 2:
                self.feat["multi"] = 1
            res = self.bind.grant(t.name, t.mpred, custom=t.fspec is not None)
            if res == "no-backing":
                self.violate("C02", "grant-without-item", f"retrieval {t.name} granted but no available unbound item exists "
                             f"(available={self.bind.order}, bound in every world)", stop=False)
                self.bind.broken = True
                self.stopped = True
            elif res == "overflow":
                raise HarnessCap("bind model world cap")
        if not immediate:
            self.probe("grant_deferred_" + t.kind)

    # ------------------------------------------------------------------------------------------
    def scan_ready(self):
        """Register items that have become available (timed kinds: first seen in the ready list)."""
        if self.ad.timed is None:
            return
        rd = self.ad.ready()
        for obj in rd:
            rec = self.byobj.get(id(obj))
            if rec is None:
                self.violate("C02", "unknown-item-in-store", f"ready list contains an object that was never put: {obj!r}")
                continue
            if rec.avail_t is None and rec.state == "inside":
                self._avail(rec)

    def _avail(self, rec):
        env = self.env
        self.avail_seq += 1
        rec.avail_seq = self.avail_seq
        rec.avail_t = env.now
        self.hist.append(("avail", env.seq, env.now, rec.name))
        if any(q.kind == "g" and q.state == "granted" for q in self.toks.values()):
            self.feat["aw"] = 1
            self.fault("F12_arrival_while_reserved")
        self.bind.avail(rec.name, rec.obj)

    # after every kernel event
    def on_event(self):
        if self.stopped:
            return
        self.scan_ready()
        self.check_c01("event")

    def n_granted(self, kind):
        return sum(1 for q in self.toks.values() if q.kind == kind and q.state in ("granted", "using"))

    def check_c01(self, where):
        if self.kind == "prs":
            n = len(self.ad.store.items)
            if n > self.cap:
                self.violate("C01", "capacity", f"{n} items in PriorityReqStore of capacity {self.cap}")
            return
        g = self.n_granted("p")
        if self.held + g > self.cap:
            self.violate("C01", "capacity", f"held={self.held} + granted-unused space reservations={g} > capacity={self.cap} ({where})",
                         feat=("cp", "cg"))

    # ------------------------------------------------------------------------------------------
    def integrate(self):
        now = self.env.now
        if now != self.integ_t:
            self.integ += Fraction(self.held) * (Fraction(now) - Fraction(self.integ_t))
            self.integ_t = now

    def wellformed(self, t, kind, c):
        return t is not None and t.kind == kind and t.c == c and t.state == "granted"

    def _ev_of(self, tokname):
        if tokname == "@fresh":
            return self.env.event(), None
        if tokname == "@none":
            return None, None
        if tokname in ("@foreign:p", "@foreign:g"):
            ev = self._foreign(tokname[-1])
            if ev != "skip":
                self._foreign_before = [(e, self._foreign_where(e)) for e in self.foreign_live]
            return ev, None
        if getattr(self, "ad2", None) is not None:
            self._foreign_before = [(e, self._foreign_where(e)) for e in self.foreign_live]
        t = self.toks.get(tokname)
        if t is None or t.ev is None:
            return "skip", None
        return t.ev, t

    def _foreign(self, kind):
        """A live reservation of ANOTHER store / edge of the same class in the same environment: an unknown token for this one."""
        if self.kind == "prs":
            return "skip"
        if getattr(self, "ad2", None) is None:
            self.ad2 = adapters.make(self.env, self.kind, self.cfg)
            self.foreign_live = []
        ev = self.ad2.rp(0) if kind == "p" else self.ad2.rg(0, None)
        self.foreign_live.append(ev)
        self.probe("foreign_token_offered")
        return ev

    def _foreign_where(self, ev):
        st = self.ad2.store
        return tuple(n for n in ("reservations_put", "reservations_get", "reserve_put_queue", "reserve_get_queue")
                     if any(x is ev for x in getattr(st, n, ())))

    def check_foreign(self, before):
        """The rejected call must leave the other store's reservation where it was."""
        for ev, w in before:
            now = self._foreign_where(ev)
            if now != w:
                self.violate("C07", "foreign-reservation-disturbed", f"a call on this store with a token of another store changed that other store: "
                             f"its reservation was in {list(w)} and is now in {list(now)}", feat=(), stop=True)

    def snapshot(self, res):
        st = tuple(sorted((n, t.state, bool(t.ev is not None and t.ev.triggered)) for n, t in self.toks.items()))
        occ = self.ad.occupancy() if self.kind != "prs" else len(self.ad.store.items)
        return (self.env.now, res, st, self.held, occ)

    # ---- op executors (bodies run inside the client process) ---------------------------------------
    def x_rp(self, c, prio, name):
        if name in self.toks:
            return "dup"
        t = Tok(name, "p", c, prio)
        self.arr += 1
        t.arr = self.arr
        t.issued_at = self.env.now
        if self.kind == "prs":
            return self._prs_put(t)
        self.toks[name] = t
        t.state = "pending"
        self._in_reserve = t
        self._reserving(t)
        try:
            ev = self.ad.rp(prio)
        except HarnessCap:
            raise           # a cap of the harness itself (e.g. the binding model's world cap reached from inside a store call): discard the run
        except Exception as e:
            t.state = "cancelled"
            self._in_reserve = None
            del self.env.event
            self.violate("C01", "reserve_put-raised:" + type(e).__name__ + ":" + norm_msg(e), f"reserve_put raised {e!r}", stop=True)
        self._in_reserve = None
        self._reserved(t, ev)
        if t.state != "granted":
            self.probe("put_request_waits")
        return "granted" if t.state == "granted" else "pending"

    def x_rg(self, c, prio, fspec, name):
        if name in self.toks:
            return "dup"
        if fspec is not None and not self.ad.filt:
            fspec = None
        t = Tok(name, "g", c, prio, fspec)
        t.pred = mk_pred(fspec)
        t.mpred = t.pred
        if fspec is None and self.kind == "rpfs":
            # the store's documented default filter: item is at least trigger_delay old
            td = self.ad.trigger_delay
            t.mpred = lambda obj, _s=self, _td=td: _s.env.now >= _s.byobj[id(obj)].put_t + _td
        self.arr += 1
        t.arr = self.arr
        t.issued_at = self.env.now
        if self.kind == "prs":
            return self._prs_get(t)
        self.toks[name] = t
        t.state = "pending"
        # a grant inside the call must see the current availability
        self._in_reserve = t
        self._reserving(t)
        try:
            ev = self.ad.rg(prio, t.pred)
        except HarnessCap:
            raise           # a cap of the harness itself (e.g. the binding model's world cap reached from inside a store call): discard the run
        except Exception as e:
            t.state = "cancelled"
            self._in_reserve = None
            del self.env.event
            self.violate("C02", "reserve_get-raised:" + type(e).__name__, f"reserve_get raised {e!r}", stop=True)
        self._in_reserve = None
        self._reserved(t, ev)
        if t.state != "granted":
            self.probe("get_request_waits")
        return "granted" if t.state == "granted" else "pending"

    def x_put(self, c, tokname, iname, d, tag, ikind=None):
        ev, t = self._ev_of(tokname)
        if ev == "skip" or iname in self.items:
            return "skip"
        L = self.cfg.get("item_length", 1)
        obj = adapters.new_item(iname, L, tag, ikind)
        if ikind is not None:
            self.probe("unusual_item_" + (ikind if isinstance(ikind, str) else "dup_id"))
        rec = ItemRec(iname, obj, tag)
        wf = self.wellformed(t, "p", c)
        d = self.ad.eff_delay(d)
        if wf:
            t.state = "using"
            # registered before the call: the store serves waiting retrievals from inside put()
            rec.state = "inside"
            rec.put_t = self.env.now
            rec.put_seq = self.env.seq
            rec.d = d
            rec.ready_at = self.env.now + d
            self.items[iname] = rec
            self.byobj[id(obj)] = rec
            if self.ad.timed is None:
                self._avail(rec)
        else:
            self.fault("F3_misuse_put")
        try:
            r = self.ad.put(ev, obj, d)
            exc = None
        except HarnessCap:
            raise           # a cap of the harness itself (e.g. the binding model's world cap reached from inside a store call): discard the run
        except Exception as e:
            r, exc = None, e
        if wf:
            if exc is not None or not r:
                t.state = "used"
                self.violate("C01", "put-failed" + (":" + type(exc).__name__ + ":" + norm_msg(exc) if exc else ":falsy"),
                             f"put with granted, un-cancelled own reservation {t.name} failed: {exc!r} / returned {r!r}",
                             feat=("cp", "cg"), stop=True)
            t.state = "used"
            t.item = iname
            self.integrate()
            self.held += 1
            self.hist.append(("put", self.env.seq, self.env.now, iname, t.name, d))
            self.check_c01("put")
            return "ok"
        return self._rejected("put", exc, r)

    def _rejected(self, what, exc, r):
        self.feat["mis"] = 1
        if exc is None:
            self.violate("C07", f"{what}-accepted", f"ill-formed {what} was accepted (returned {r!r})", feat=(), stop=True)
        if not isinstance(exc, RuntimeError):
            self.violate("C07", f"{what}-wrong-exception:{type(exc).__name__}", f"ill-formed {what} raised {exc!r}, not RuntimeError",
                         feat=(), stop=True)
        if getattr(self, "ad2", None) is not None:
            self.check_foreign(self._foreign_before)
        self.misuse_ok.append(self.opi)
        return "rejected"

    def x_get(self, c, tokname):
        ev, t = self._ev_of(tokname)
        if ev == "skip":
            return "skip"
        wf = self.wellformed(t, "g", c)
        if wf:
            t.state = "using"
        else:
            self.fault("F3_misuse_get")
        try:
            y = self.ad.get(ev)
            exc = None
        except HarnessCap:
            raise           # a cap of the harness itself (e.g. the binding model's world cap reached from inside a store call): discard the run
        except Exception as e:
            y, exc = None, e
        if wf:
            t.state = "used"
            if exc is not None:
                self.violate("C02", "get-raised:" + type(exc).__name__ + ":" + norm_msg(exc),
                             f"get with granted, un-cancelled own reservation {t.name} raised {exc!r}", stop=True)
            rec = self.byobj.get(id(y))
            if rec is None or rec.obj is not y:
                self.violate("C02", "get-invented", f"get returned {y!r}, which was never put into this store", stop=True)
            if rec.state != "inside":
                self.violate("C02", "get-duplicate", f"get returned {rec.name}, which was already returned at t={rec.got_t}", stop=True)
            self.integrate()
            self.held -= 1
            rec.state = "got"
            rec.got_t = self.env.now
            rec.got_seq = self.env.seq
            t.item = rec.name
            self.hist.append(("get", self.env.seq, self.env.now, rec.name, t.name))
            if self.ad.timed == "delay" and self.env.now < rec.ready_at:
                self.violate("C11", "early-get", f"{rec.name} put at {rec.put_t} with delay {rec.d} was returned at {self.env.now}", feat=())
            if rec.avail_t is None:
                self.scan_ready()
            if t.pred is not None and not t.pred(y):
                self.bind.broken = True
                self.violate("C06", "filter", f"filtered retrieval {t.name} ({t.fspec}) received {rec.name} with tag {rec.tag}", feat=("cg",), stop=True)
            if not getattr(self.bind, "broken", False):
                why = self.bind.get(t.name, rec.name)
                if why:
                    self.bind.broken = True
                    if self.ad.timed == "belt":
                        # on a conveyor the retrieval discipline IS the exit order of C12 (also after cancellations)
                        self.violate("C12", "exit-order", why)
                    self.violate("C06", "discipline", why, extra="," + self.bind.mode, stop=True)
            else:
                self.bind.forget(rec.name)
            return rec.name
        return self._rejected("get", exc, y)

    def x_cancel(self, c, tokname, kind):
        ev, t = self._ev_of(tokname)
        if ev == "skip":
            return "skip"
        valid = t is not None and t.kind == kind and t.state in ("pending", "granted")
        was = t.state if t is not None else None
        if valid:
            t.state = "cancelling"
            if was == "granted" and kind == "g":
                # before the call: the store re-serves waiting retrievals from inside the cancel
                self.feat["cg"] = 1
                self.bind.cancel(t.name)
        else:
            self.fault("F3_misuse_cancel")
        try:
            r = self.ad.cp(ev) if kind == "p" else self.ad.cg(ev)
            exc = None
        except HarnessCap:
            raise           # a cap of the harness itself (e.g. the binding model's world cap reached from inside a store call): discard the run
        except Exception as e:
            r, exc = None, e
        if valid:
            t.state = "cancelled"
            if exc is not None:
                prop = "C01" if kind == "p" else "C06"
                self.violate(prop, f"cancel-raised:{type(exc).__name__}:{norm_msg(exc)}", f"cancel of live reservation {t.name} ({was}) raised {exc!r}", stop=True)
            self.hist.append(("cancel", self.env.seq, self.env.now, t.name, kind, was))
            if was == "granted":
                self.fault("F2_cancel_granted_" + ("put" if kind == "p" else "get"))
                if kind == "p":
                    self.feat["cp"] = 1
            else:
                self.fault("F1_cancel_pending")
            return "cancelled-" + was
        return self._rejected("cancel", exc, r)

    # ---- PriorityReqStore (plain SimPy requests) ------------------------------------------------
    def _prs_put(self, t):
        self.toks[t.name] = t
        obj = adapters.new_item("i_" + t.name)
        rec = ItemRec("i_" + t.name, obj, 0)
        self.items[rec.name] = rec
        self.byobj[id(obj)] = rec
        t.state = "pending"
        req = self.ad.store.put(obj, t.prio)
        t.ev = req
        if req.triggered:
            self._granted(t, True)
        else:
            self._hook(t)
        return t.state

    def _prs_get(self, t):
        self.toks[t.name] = t
        t.state = "pending"
        req = self.ad.store.get(t.prio)
        t.ev = req
        if req.triggered:
            self._granted(t, True)
        else:
            self._hook(t)
        return t.state

    def _prs_cancel(self, tokname):
        t = self.toks.get(tokname)
        if t is None or t.state != "pending":
            return "skip"
        t.state = "cancelling"
        t.ev.cancel()
        t.state = "cancelled"
        self.fault("F1_cancel_pending")
        self.feat["cp"] = 1
        return "cancelled"

    # ---- probe (C11) -------------------------------------------------------------------------
    def x_probe(self, c):
        ad = self.ad
        if self.kind not in ("buf", "flt"):
            return "skip"
        cp, cg, occ = ad.edge.can_put(), ad.edge.can_get(), ad.occupancy()
        res = []
        pend_p = any(q.kind == "p" and q.state == "pending" for q in self.toks.values())
        pend_g = any(q.kind == "g" and q.state == "pending" for q in self.toks.values())
        # probe reservations, withdrawn at once; never registered as tokens of the run
        ev = ad.rp(0)
        tp = ev.triggered
        ad.cp(ev)
        ev = ad.rg(0, None)
        tg = ev.triggered
        ad.cg(ev)
        self.probe("c11_probe")
        if tp:
            self.probe("c11_probe_put_granted")
        if tg:
            self.probe("c11_probe_get_granted")
        if self.n_granted("p") or self.n_granted("g"):
            self.probe("c11_probe_with_granted_reservations")
        if pend_p or pend_g:
            self.probe("c11_probe_with_pending_requests")
        if bool(cp) != tp:
            self.violate("C11", "can_put", f"can_put()={cp} but a reservation issued in the same state was "
                         f"{'granted' if tp else 'not granted'} (held={self.held}, granted puts={self.n_granted('p')}, pending={pend_p})", feat=("cp",))
        if bool(cg) != tg:
            self.violate("C11", "can_get", f"can_get()={cg} but a retrieval reservation issued in the same state was "
                         f"{'granted' if tg else 'not granted'} (ready={len(ad.ready())}, granted gets={self.n_granted('g')}, pending={pend_g})")
        if occ != self.held:
            self.violate("C11", "occupancy", f"occupancy reports {occ}, store holds {self.held} items (in transit + ready)", feat=())
        return (bool(cp), bool(cg), occ)

    # ---- time --------------------------------------------------------------------------------
    def advance(self, target, inclusive):
        env = self.env
        while True:
            nxt = env.peek()
            if nxt <= env.now:
                env.step()
                continue
            self.instant_end()
            if nxt < target or (inclusive and nxt == target and nxt != INF):
                env.step()
                continue
            break
        if env.now < target:
            if inclusive:
                env._now = target
            else:
                env.run_to(target, inclusive=False)

    def instant_end(self):
        """End-of-instant oracles (all events of `now` processed)."""
        if self.stopped:
            return
        self.scan_ready()
        env = self.env
        kind = self.kind
        if kind == "prs":
            st = self.ad.store
            pend_p = [q for q in self.toks.values() if q.kind == "p" and q.state == "pending"]
            pend_g = [q for q in self.toks.values() if q.kind == "g" and q.state == "pending"]
            if pend_p and len(st.items) < self.cap:
                self.violate("C04", "put-stuck", f"put request pending while {len(st.items)} < capacity {self.cap}", feat=("cp",))
            if pend_g and len(st.items) > 0:
                self.violate("C04", "get-stuck", f"get request pending while {len(st.items)} items are stored", feat=("cp",))
            return
        # --- C04 put side
        pend_p = [q for q in self.toks.values() if q.kind == "p" and q.state == "pending"]
        if pend_p:
            free = self.cap - self.held - self.n_granted("p")
            if free > 0 and self.put_side_unambiguous():
                self.violate("C04", "put-stuck", f"space request {min(pend_p, key=lambda q: (q.prio, q.arr)).name} still pending at end of "
                             f"instant {env.now} although held={self.held}, granted={self.n_granted('p')}, capacity={self.cap}",
                             feat=("cp", "cg"))
        # --- C04 get side
        pend_g = [q for q in self.toks.values() if q.kind == "g" and q.state == "pending"]
        if pend_g and not getattr(self.bind, "broken", False):
            head = min(pend_g, key=lambda q: (q.prio, q.arr))
            if self.bind.servable_in_every_world(head.mpred):
                self.violate("C04", "get-stuck", f"retrieval request {head.name} still pending at end of instant {env.now} although an "
                             f"available unreserved item exists (available={self.bind.order})", feat=("cg", "aw"))
        # --- C11(a): buffer delay exact
        if self.ad.timed == "delay":
            for rec in self.items.values():
                if rec.state != "inside":
                    continue
                if rec.avail_t is None and env.now >= rec.ready_at:
                    self.violate("C11", "late", f"{rec.name} put at {rec.put_t} with delay {rec.d} is still not retrievable at {env.now}", feat=())
                if rec.avail_t is not None and rec.avail_t < rec.ready_at:
                    self.violate("C11", "early", f"{rec.name} put at {rec.put_t} with delay {rec.d} became retrievable at {rec.avail_t}", feat=())
            # the delay of a Buffer edge is drawn exactly once per accepted put
        # --- conservation cross-check against the contents accessor
        inside_model = {r.name for r in self.items.values() if r.state == "inside"}
        try:
            objs = self.ad.inside()
        except HarnessCap:
            raise           # a cap of the harness itself (e.g. the binding model's world cap reached from inside a store call): discard the run
        except Exception as e:  # accessor itself broken
            self.violate("C02", "contents-accessor-raised:" + type(e).__name__, repr(e))
            objs = None
        if objs is not None:
            names = []
            for o in objs:
                r = self.byobj.get(id(o))
                names.append(r.name if r is not None and r.obj is o else f"<unknown {o!r}>")
            if sorted(names) != sorted(inside_model):
                self.violate("C02", "conservation", f"store contents {sorted(names)} != put-minus-got {sorted(inside_model)}")
        occ = self.ad.occupancy()
        if occ is not None and occ != self.held and self.kind in ("buf", "flt"):
            self.violate("C11", "occupancy", f"occupancy reports {occ}, store holds {self.held} items", feat=())
        self.abstract.add(self.abstract_state())

    def put_side_unambiguous(self):
        """For belts 'free space' also depends on spacing and stall gates (C12/C13 own those)."""
        if self.ad.timed != "belt":
            return True
        st = self.ad.store
        # an empty belt with no granted-but-unused entry reservation: only then is "free space" unambiguous
        # (entries must be one slot apart, and each outstanding reservation is an entry about to happen)
        if len(st.items) == 0 and len(st.ready_items) == 0 and self.n_granted("p") == 0:
            return True
        # an accumulating belt on which nothing is moving any more (every item waits at the exit end) and no entry is outstanding:
        # no spacing or stall gate applies, it admits until it holds capacity items
        if self.ad.acc and len(st.items) == 0 and self.n_granted("p") == 0:
            return True
        return False

    def abstract_state(self):
        n_ready = len(self.bind.order)
        return (self.held - n_ready, n_ready, self.n_granted("p"), self.n_granted("g"),
                sum(1 for q in self.toks.values() if q.kind == "p" and q.state == "pending"),
                sum(1 for q in self.toks.values() if q.kind == "g" and q.state == "pending"))

    # ---- driver ----------------------------------------------------------------------------------
    def do_op(self, op):
        self.opi += 1
        self.ops_done.append(op)
        k = op[0]
        res = None
        if k == "step":
            # process up to n kernel events of the CURRENT instant: the next client call lands between two same-instant events
            n = 0
            for _ in range(op[1]):
                if self.env.peek() <= self.env.now:
                    self.env.step()
                    n += 1
            if n:
                self.probe("call_between_same_instant_events")
            res = "step"
        elif k == "adv":
            dt, mode = op[1], op[2]
            if dt > 0:
                self.probe("adv")
            if dt > 0 or mode != "before":
                self.advance(self.env.now + dt, mode != "before")
            if mode == "before" and self.env.peek() <= self.env.now:
                self.probe("arrived_before_timers_of_instant")
            res = "adv"
        else:
            out = []
            if k == "rp":
                c = op[1] % self.K
                self.call(c, lambda: out.append(self._x(self.x_rp, c, op[2] if self.ad.prio_put else 0, op[3])))
            elif k == "rg":
                c = op[1] % self.K
                self.call(c, lambda: out.append(self._x(self.x_rg, c, op[2] if self.ad.prio_get else 0, op[3], op[4])))
            elif k == "put":
                c = op[1] % self.K
                self.call(c, lambda: out.append(self._x(self.x_put, c, op[2], op[3], op[4], op[5], op[6] if len(op) > 6 else None)))
            elif k == "get":
                c = op[1] % self.K
                self.call(c, lambda: out.append(self._x(self.x_get, c, op[2])))
            elif k == "cp" or k == "cg":
                c = op[1] % self.K
                if self.kind == "prs":
                    self.call(c, lambda: out.append(self._x(self._prs_cancel, op[2])))
                else:
                    self.call(c, lambda: out.append(self._x(self.x_cancel, c, op[2], "p" if k == "cp" else "g")))
            elif k == "probe":
                self.call(0, lambda: out.append(self._x(self.x_probe, 0)))
            else:
                raise ValueError(op)
            res = out[0] if out else None
            if self._exc is not None:
                e, self._exc = self._exc, None
                raise e
        self.fp.append((k, self.abstract_state()))
        self.obs.append(self.snapshot(res))

    _exc = None
    _in_reserve = None

    def _x(self, f, *a):
        """Inside the client process: run an executor, never let anything escape into the kernel."""
        try:
            return f(*a)
        except Stop as e:
            self._exc = e
            return "stop"
        except BaseException as e:  # harness bug or cap: re-raised outside the process
            self._exc = e
            return "error"

    def run(self):
        ops = list(self.case.get("ops", []))

        def body():
            i = 0
            while not self.stopped:
                if i < len(ops):
                    op = ops[i]
                elif self.gen is not None:
                    op = self.gen(self)
                    if op is None:
                        break
                else:
                    break
                i += 1
                self.do_op(op)
            if not self.stopped:
                fa = self.case.get("final_adv", 0)
                self.opi += 1
                self.advance(self.env.now + fa, True)
                self.instant_end()
                self.finish()
                self.obs.append(self.snapshot("final"))
        self._guard(body)
        return self

    # ---- end-of-run oracles ------------------------------------------------------------------------
    def finish(self):
        from . import oracles_a
        oracles_a.finish(self)


def run_case(case, gen=None, probes=None):
    h = HarnessA(case, gen=gen, probes=probes)
    if not h.stopped:
        h.run()
    return h
