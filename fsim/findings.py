"""known_findings.json: read-only at run time.

{"findings": [ {"id","property","signatures":[...],"what","replay"} ],     # open genuine defects
 "fixed":    [ {"property","commit","what","replay","signatures":[...]} ]}  # repaired: suppress nothing
"""
import json
import os

import fsim

PATH = os.path.join(fsim.VERIF, "known_findings.json")


def load():
    if not os.path.exists(PATH):
        return {"findings": [], "fixed": []}
    with open(PATH) as f:
        d = json.load(f)
    d.setdefault("findings", [])
    d.setdefault("fixed", [])
    return d


def for_property(prop):
    d = load()
    return ([x for x in d["findings"] if x["property"] == prop], [x for x in d["fixed"] if x["property"] == prop])


def match(open_findings, signature):
    for f in open_findings:
        for s in f.get("signatures", []):
            if s == signature or (s.endswith("*") and signature.startswith(s[:-1])):
                return f
    return None
