"""Layer A adapters: one real store or edge object of the repository behind a uniform call surface.

Nothing of the repository is stubbed here: the adapter only knows *how to call* each class
(BufferStore wants (item, delay) tuples, conveyors take their reservations on `edge.belt`, ...) and
which public accessor (or, where none exists, which attribute) exposes contents for observation.
"""
from . import load_repo

load_repo()

from factorysimpy.base.reservable_priority_req_store import ReservablePriorityReqStore  # noqa: E402
from factorysimpy.base.reservable_req_store import ReservableReqStore  # noqa: E402
from factorysimpy.base.reservable_priority_req_filter_store import ReservablePriorityReqFilterStore  # noqa: E402
from factorysimpy.base.priority_req_store import PriorityReqStore  # noqa: E402
from factorysimpy.base.buffer_store import BufferStore  # noqa: E402
from factorysimpy.base.fleet_store import FleetStore  # noqa: E402
from factorysimpy.edges.buffer import Buffer  # noqa: E402
from factorysimpy.edges.fleet import Fleet  # noqa: E402
from factorysimpy.edges import continuous_conveyor, slotted_conveyor  # noqa: E402
from factorysimpy.nodes.node import Node  # noqa: E402
from factorysimpy.helper.item import Item  # noqa: E402


class StubNode(Node):
    """Inert end point so that edges pass their `initial_test()`; never runs a process."""

    def __init__(self, env, id):
        super().__init__(env, id)


class DelaySource:
    """Stub delay callable/generator for Buffer edges: hands out the delay the op list asks for and
    counts how often it is consulted ("the delay is drawn once per put")."""

    def __init__(self):
        self.next = 0
        self.calls = 0

    def fn(self):
        self.calls += 1
        return self.next

    def gen(self):
        while True:
            self.calls += 1
            yield self.next


class Adapter:
    kind = None
    prio_put = False
    prio_get = False
    filt = False
    timed = None          # None | 'delay' | 'fleet' | 'belt'
    is_edge = False
    mode = "FIFO"
    cls_name = ""

    def __init__(self, env, cfg):
        self.env = env
        self.cfg = cfg
        self.cap = cfg["cap"]
        self.delay_src = None

    # calls made from inside client processes
    def rp(self, prio):
        return self.store.reserve_put(prio) if self.prio_put else self.store.reserve_put()

    def rg(self, prio, pred):
        return self.store.reserve_get(prio) if self.prio_get else self.store.reserve_get()

    def put(self, ev, item, d):
        return self.store.put(ev, item)

    def get(self, ev):
        return self.store.get(ev)

    def cp(self, ev):
        return self.store.reserve_put_cancel(ev)

    def cg(self, ev):
        return self.store.reserve_get_cancel(ev)

    # observation
    def inside(self):
        return list(self.store.items)

    def ready(self):
        return None

    def occupancy(self):
        return None

    def label(self):
        return self.cls_name

    def eff_delay(self, d):
        """The item delay that will really apply to a put asked for with delay d."""
        return d if self.timed == "delay" else 0


class A_rprs(Adapter):
    kind = "rprs"
    prio_put = prio_get = True
    cls_name = "ReservablePriorityReqStore"

    def __init__(self, env, cfg):
        super().__init__(env, cfg)
        self.store = ReservablePriorityReqStore(env, capacity=self.cap)


class A_rrs(Adapter):
    kind = "rrs"
    cls_name = "ReservableReqStore"

    def __init__(self, env, cfg):
        super().__init__(env, cfg)
        self.store = ReservableReqStore(env, capacity=self.cap)


class A_rpfs(Adapter):
    kind = "rpfs"
    prio_put = prio_get = True
    filt = True
    cls_name = "ReservablePriorityReqFilterStore"

    def __init__(self, env, cfg):
        super().__init__(env, cfg)
        self.trigger_delay = cfg.get("trigger_delay", 0)
        self.store = ReservablePriorityReqFilterStore(env, capacity=self.cap, trigger_delay=self.trigger_delay)

    def rg(self, prio, pred):
        return self.store.reserve_get(prio, pred)


class A_bufs(Adapter):
    kind = "bufs"
    timed = "delay"
    cls_name = "BufferStore"

    def __init__(self, env, cfg):
        super().__init__(env, cfg)
        self.mode = cfg.get("mode", "FIFO")
        self.store = BufferStore(env, capacity=self.cap, mode=self.mode)

    def put(self, ev, item, d):
        return self.store.put(ev, (item, d))

    def inside(self):
        return [x[0] for x in self.store.items] + list(self.store.ready_items)

    def ready(self):
        return list(self.store.ready_items)

    def label(self):
        return f"BufferStore[{self.mode}]"


class A_fls(Adapter):
    kind = "fls"
    prio_put = prio_get = True
    timed = "fleet"
    cls_name = "FleetStore"

    def __init__(self, env, cfg):
        super().__init__(env, cfg)
        self.store = FleetStore(env, capacity=self.cap, delay=cfg["delay"], transit_delay=cfg["transit"])

    def inside(self):
        return list(self.store.items) + list(self.store.ready_items)

    def ready(self):
        return list(self.store.ready_items)


class EdgeAdapter(Adapter):
    is_edge = True

    def connect(self):
        self.src = StubNode(self.env, "stub_src")
        self.dst = StubNode(self.env, "stub_dst")
        self.edge.connect(self.src, self.dst)

    def put(self, ev, item, d):
        return self.edge.put(ev, item)

    def get(self, ev):
        return self.edge.get(ev)

    def cp(self, ev):
        return self.edge.reserve_put_cancel(ev)

    def cg(self, ev):
        return self.edge.reserve_get_cancel(ev)


class A_buf(EdgeAdapter):
    kind = "buf"
    timed = "delay"
    cls_name = "Buffer"

    def __init__(self, env, cfg):
        super().__init__(env, cfg)
        self.mode = cfg.get("mode", "FIFO")
        self.delay_src = DelaySource()
        form = cfg.get("delay_form", "callable")
        if form == "callable":
            d = self.delay_src.fn
        elif form == "generator":
            d = self.delay_src.gen()
        else:  # constant
            d = cfg["const_delay"]
        self.form = form
        self.edge = Buffer(env, "buf", capacity=self.cap, delay=d, mode=self.mode)
        self.store = self.edge.inbuiltstore
        self.connect()

    def rp(self, prio):
        return self.edge.reserve_put()

    def rg(self, prio, pred):
        return self.edge.reserve_get()

    def put(self, ev, item, d):
        self.delay_src.next = d
        return self.edge.put(ev, item)

    def eff_delay(self, d):
        return self.cfg["const_delay"] if self.form == "constant" else d

    def inside(self):
        return [x[0] if isinstance(x, tuple) else x for x in self.edge.items()]

    def ready(self):
        return list(self.edge.ready_items())

    def occupancy(self):
        return self.edge.occupancy()

    def label(self):
        return f"Buffer[{self.mode}]"


class A_flt(EdgeAdapter):
    kind = "flt"
    timed = "fleet"
    cls_name = "Fleet"

    def __init__(self, env, cfg):
        super().__init__(env, cfg)
        self.edge = Fleet(env, "flt", capacity=self.cap, delay=cfg["delay"], transit_delay=cfg["transit"])
        self.store = self.edge.inbuiltstore
        self.connect()

    def rp(self, prio):
        return self.edge.reserve_put()

    def rg(self, prio, pred):
        return self.edge.reserve_get()

    def inside(self):
        return list(self.edge.get_items())

    def ready(self):
        return list(self.edge.get_ready_items())

    def occupancy(self):
        return self.edge.get_occupancy()


class A_cconv(EdgeAdapter):
    kind = "cconv"
    timed = "belt"
    cls_name = "ConveyorBelt(continuous)"

    def __init__(self, env, cfg):
        super().__init__(env, cfg)
        self.L = cfg["item_length"]
        self.speed = cfg["speed"]
        self.acc = cfg["accumulating"]
        self.edge = continuous_conveyor.ConveyorBelt(env, "cconv", conveyor_length=self.cap * self.L, speed=self.speed,
                                                     item_length=self.L, accumulating=self.acc)
        if self.edge.capacity != self.cap:
            raise RuntimeError(f"HARNESS-ERROR conveyor capacity {self.edge.capacity} != {self.cap}")
        self.store = self.edge.belt
        self.connect()
        self.slot = self.L / self.speed
        self.travel = self.L * self.cap / self.speed

    def rp(self, prio):
        return self.edge.reserve_put()

    def rg(self, prio, pred):
        return self.edge.reserve_get()

    # conveyors expose no cancel at edge level; nodes cancel through event.resourcename (the belt store)
    def cp(self, ev):
        return self.store.reserve_put_cancel(ev)

    def cg(self, ev):
        return self.store.reserve_get_cancel(ev)

    def inside(self):
        return [x[0] if isinstance(x, tuple) else x for x in self.edge.items()]

    def ready(self):
        return list(self.edge.ready_items())

    def occupancy(self):
        return self.edge.occupancy()

    def label(self):
        return f"ConveyorBelt(continuous,{'acc' if self.acc else 'nonacc'})"


class A_sconv(EdgeAdapter):
    kind = "sconv"
    timed = "belt"
    prio_put = prio_get = True
    cls_name = "ConveyorBelt(slotted)"

    def __init__(self, env, cfg):
        super().__init__(env, cfg)
        self.acc = cfg["accumulating"]
        self.slot = cfg["delay"]
        self.edge = slotted_conveyor.ConveyorBelt(env, "sconv", capacity=self.cap, delay=self.slot, accumulating=self.acc)
        self.store = self.edge.belt
        self.connect()
        self.travel = self.cap * self.slot

    def rp(self, prio):
        # the edge method takes no priority; nodes reach the belt store via event.resourcename as well
        return self.store.reserve_put(prio)

    def rg(self, prio, pred):
        return self.store.reserve_get(prio)

    def cp(self, ev):
        return self.store.reserve_put_cancel(ev)

    def cg(self, ev):
        return self.store.reserve_get_cancel(ev)

    def inside(self):
        return [x[0] for x in self.store.items] + list(self.store.ready_items)

    def ready(self):
        return list(self.store.ready_items)          # no public accessor on the slotted conveyor

    def occupancy(self):
        return self.edge.belt_occupancy()

    def label(self):
        return f"ConveyorBelt(slotted,{'acc' if self.acc else 'nonacc'})"


class A_prs(Adapter):
    """PriorityReqStore: plain SimPy put(item, priority) / get(priority) requests (no reservations)."""
    kind = "prs"
    prio_put = prio_get = True
    cls_name = "PriorityReqStore"

    def __init__(self, env, cfg):
        super().__init__(env, cfg)
        self.store = PriorityReqStore(env, capacity=self.cap)


ADAPTERS = {a.kind: a for a in (A_rprs, A_rrs, A_rpfs, A_bufs, A_fls, A_buf, A_flt, A_cconv, A_sconv, A_prs)}


def make(env, kind, cfg):
    return ADAPTERS[kind](env, cfg)


class FalsyItem(Item):
    """A perfectly good item whose truth value is False (like an empty container)."""
    def __len__(self):
        return 0


def new_item(name, length=1, tag=0, kind=None):
    if kind == "pallet":
        from factorysimpy.helper.pallet import Pallet
        it = Pallet(name)               # an empty pallet
    elif kind == "falsy":
        it = FalsyItem(name)
    elif isinstance(kind, (list, tuple)) and kind and kind[0] == "dup":
        it = Item(kind[1])              # a distinct object that carries the id of another item
    else:
        it = Item(name)
    it.length = length
    it.tag = tag
    return it
