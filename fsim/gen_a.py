"""Layer A case generation: swarm configuration per run + state-aware, biased op generator."""
from .rng import LATTICES
from .kernel import INF

ALL_RES = ["rprs", "rrs", "rpfs", "bufs", "fls", "buf", "flt", "cconv", "sconv"]

KINDS_FOR = {
    "C01": ALL_RES + ["bufs", "buf", "fls", "prs"],
    "C02": ALL_RES + ["bufs", "buf"],
    "C04": ALL_RES + ["prs", "bufs", "rpfs"],
    "C05": ["rprs", "rpfs", "fls", "sconv", "rrs", "bufs", "cconv", "prs", "prs", "rprs"],
    "C06": ["rprs", "rrs", "rpfs", "rpfs", "bufs", "bufs", "buf", "buf", "fls", "flt", "cconv", "sconv"],
    "C07": ALL_RES,
    "C11": ["buf", "buf", "buf", "flt", "bufs"],
    "C18": ["buf", "flt", "cconv", "sconv"],
    "C20": ["fls", "flt", "cconv", "sconv", "buf"],
    "C14": ["fls", "flt"],
    "C12": ["cconv", "sconv"],
}

PRIO_ALPHABETS = [[0], [0, 1], [-1, 0, 0, 2], [0, 0, 1], [-2, -1, 0, 1, 2], [5, 5, 5, 1]]

# op-mix profiles: rp rg put get cancel adv mis probe
PROFILE = {
    "C01": dict(rp=3.0, rg=1.5, put=3.0, get=1.5, cancel=1.6, adv=1.5, mis=0.0, probe=0.0),
    "C02": dict(rp=2.0, rg=3.0, put=3.0, get=2.0, cancel=1.6, adv=1.5, mis=0.0, probe=0.0),
    "C04": dict(rp=3.0, rg=3.0, put=2.0, get=2.0, cancel=1.5, adv=2.0, mis=0.0, probe=0.0),
    "C05": dict(rp=4.0, rg=4.0, put=1.5, get=1.5, cancel=1.2, adv=1.0, mis=0.0, probe=0.0),
    "C06": dict(rp=2.0, rg=3.0, put=3.0, get=2.0, cancel=2.0, adv=1.5, mis=0.0, probe=0.0),
    "C07": dict(rp=2.5, rg=2.5, put=2.5, get=2.0, cancel=1.0, adv=1.2, mis=1.6, probe=0.0),
    "C11": dict(rp=2.5, rg=2.5, put=3.0, get=2.0, cancel=1.2, adv=2.5, mis=0.0, probe=2.5),
    "C18": dict(rp=2.5, rg=2.5, put=3.0, get=2.5, cancel=0.6, adv=2.5, mis=0.0, probe=0.0),
    "C20": dict(rp=3.0, rg=2.5, put=3.0, get=2.0, cancel=1.0, adv=3.0, mis=0.0, probe=0.0),
    "C14": dict(rp=3.5, rg=2.0, put=4.0, get=2.0, cancel=0.4, adv=3.5, mis=0.0, probe=0.0),
    "C12": dict(rp=2.5, rg=3.0, put=3.0, get=2.0, cancel=2.0, adv=3.0, mis=0.0, probe=0.0),
}


def wchoice(rng, pairs):
    tot = sum(w for _, w in pairs)
    if tot <= 0:
        return None
    x = rng.random() * tot
    for v, w in pairs:
        x -= w
        if x < 0:
            return v
    return pairs[-1][0]


def gen_cfg(prop, rng, tier, kind=None):
    thorough = tier == "thorough"
    kind = kind or rng.choice(KINDS_FOR[prop])
    capmax = 8 if thorough else 5
    cap = rng.choice([1, 1, 2, 2, 3, 3, 4, 5] + ([6, 8] if thorough else []))
    cap = min(cap, capmax)
    lat_name = rng.choice(["dyadic", "dyadic", "decimal", "coprime", "unit"])
    lat = LATTICES[lat_name]
    cfg = {"cap": cap}
    pos = [x for x in lat if x > 0]
    if kind in ("bufs", "buf"):
        cfg["mode"] = rng.choice(["FIFO", "FIFO", "LIFO"])
    if kind == "buf":
        cfg["delay_form"] = rng.choice(["callable", "generator", "constant"])
        if prop == "C07":
            cfg["delay_form"] = "constant"   # an ill-formed call may consume a draw; not a store side effect
        cfg["const_delay"] = rng.choice(lat)
    if kind in ("fls", "flt"):
        cfg["delay"] = rng.choice(pos + [1, 2] + ([0] if prop in ("C14", "C20") or rng.random() < 0.3 else []))
        cfg["transit"] = rng.choice(lat + [0, 0.5])
    if kind == "cconv":
        cfg["item_length"] = rng.choice([1, 1, 2, 3])
        cfg["speed"] = rng.choice([1, 1, 2, 0.5, 4])
        cfg["accumulating"] = rng.choice([0, 1])
        cfg["cap"] = max(cap, 1)
    if kind == "sconv":
        cfg["delay"] = rng.choice(pos)
        cfg["accumulating"] = rng.choice([0, 1])
    if kind == "rpfs":
        cfg["trigger_delay"] = rng.choice([0, 0, 0, 1, 0.5])
    K = rng.choice([1, 2, 2, 3, 3, 4] + ([5, 6] if thorough else []))
    if prop == "C07":
        K = max(K, 2)
    nops = rng.randint(5, 150 if thorough else 60)
    prios = rng.choice(PRIO_ALPHABETS)
    prof = dict(PROFILE[prop])
    for k in prof:
        prof[k] *= rng.choice([0.5, 1.0, 1.0, 1.5])
    if prop not in ("C07",) and rng.random() < 0.08:
        prof["mis"] = 0.4      # a little misuse everywhere (it must never disturb anything)
    if rng.random() < 0.2:
        prof["cancel"] = 0.0   # fault-free configuration (oracles must hold there without relaxation)
    knobs = {"kind": kind, "cfg": cfg, "K": K, "nops": nops, "prios": prios, "lattice": lat_name, "prof": prof,
             "prelude": prop in ("C01", "C02", "C05", "C06", "C07") and rng.random() < 0.25,
             "mixed_items": prop in ("C01", "C02", "C04", "C06", "C05") and rng.random() < 0.25,
             "filters": rng.random() < 0.6, "drain": prop in ("C02", "C04", "C01", "C06") and rng.random() < 0.4}
    return knobs


class GenA:
    """Online op generator.  Looks at the harness' *own view* (token states) only."""

    def __init__(self, rng, knobs):
        self.rng = rng
        self.k = knobs
        self.n = 0
        self.lat = LATTICES[knobs["lattice"]]
        self.count = 0
        self.last = None
        self.pre = {"phase": "fill", "put": 0, "target": rng.choice([2, 2, 3]), "steps": 0, "rg": 0} if knobs.get("prelude") else None

    def name(self, p):
        self.n += 1
        return f"{p}{self.n}"

    def prelude(self, h):
        """Scripted opening of some runs: a few items inside and available, then two retrieval reservations granted one after the
        other with DESCENDING priority value and both outstanding - the state in which parallel bookkeeping lists get out of step.
        The random ops follow."""
        rng = self.rng
        st = self.pre
        st["steps"] += 1
        if st["steps"] > 40 or h.kind == "prs":
            self.pre = None
            return None
        toks = list(h.toks.values())
        gp = [t for t in toks if t.kind == "p" and t.state == "granted"]
        pp = [t for t in toks if t.kind == "p" and t.state == "pending"]
        if st["phase"] == "fill":
            if st["put"] >= st["target"]:
                st["phase"] = "wait"
            elif gp:
                st["put"] += 1
                d = rng.choice(self.lat) if h.ad.timed == "delay" else 0
                return ["put", gp[0].c, gp[0].name, self.name("i"), d, 0]
            elif not pp:
                return ["rp", 0, 0, self.name("p")]
        if st["phase"] in ("fill", "wait"):
            if st["phase"] == "wait" and len(h.bind.order) >= min(2, st["target"]):
                st["phase"] = "reserve"
            else:
                nxt = h.env.peek()
                if nxt <= h.env.now:
                    return ["adv", 0, "after"]
                if nxt == INF:
                    self.pre = None
                    return None
                return ["adv", nxt - h.env.now, "after"] if h.env.now + (nxt - h.env.now) == nxt else ["adv", max(self.lat), "after"]
        if st["phase"] == "reserve":
            pr = sorted(set(self.k["prios"]), reverse=True)
            i = st["rg"]
            st["rg"] += 1
            if i >= 2:
                self.pre = None
                return None
            return ["rg", (1 + i) % h.K, pr[min(i, len(pr) - 1)], None, self.name("g")]
        return None

    def __call__(self, h):
        if self.pre is not None:
            op = self.prelude(h)
            if op is not None:
                return op
        if self.count >= self.k["nops"]:
            return self.drain(h) if self.k.get("drain") else None
        self.count += 1
        op = self.pick(h)
        if op is not None and op[0] == "put" and self.k.get("mixed_items") and len(op) == 6:
            # unusual but legal things to store: an empty Pallet, an object that is falsy (len() == 0), a second object carrying
            # the id of an item put earlier (the library's own tests store several Item("item"))
            r = self.rng.random()
            names = [n for n, rec in h.items.items() if rec.state == "inside"]
            if r < 0.18:
                op = op + ["pallet"]
            elif r < 0.36:
                op = op + ["falsy"]
            elif r < 0.5 and names and h.kind in ("rprs", "rrs", "rpfs", "bufs", "fls"):
                op = op + [["dup", self.rng.choice(sorted(names))]]
        self.last = op
        return op

    def drain(self, h):
        """Fault-free closing phase: withdraw every outstanding reservation, then take everything out one retrieval at a
        time.  The run's end-of-run oracle then demands an empty store (every item that was put is retrievable)."""
        if h.kind == "prs":
            return None
        self.dcount = getattr(self, "dcount", 0) + 1
        if self.dcount > 6 * (h.cap + 4) + 40:
            return None
        toks = list(h.toks.values())
        for t in toks:
            if t.state in ("pending", "granted") and not (t.kind == "g" and getattr(self, "drain_tok", None) == t.name):
                return ["cp" if t.kind == "p" else "cg", t.c, t.name]
        dt = getattr(self, "drain_tok", None)
        if dt is not None:
            t = h.toks[dt]
            if t.state == "granted":
                self.drain_tok = None
                return ["get", t.c, t.name]
            if t.state == "pending":
                nxt = h.env.peek()
                if nxt <= h.env.now:
                    return ["adv", 0, "after"]
                if nxt == INF:
                    h.drain_stuck = True     # nothing will ever happen: the final oracle judges what is left
                    return None
                return ["adv", nxt - h.env.now, "after"]
            self.drain_tok = None
        if h.held == 0:
            h.probe("drained_to_empty")
            return None
        self.drain_tok = self.name("g")
        return ["rg", 0, 0, None, self.drain_tok]

    def pick(self, h):
        rng, P = self.rng, self.k["prof"]
        K = h.K
        toks = list(h.toks.values())
        gp = [t for t in toks if t.kind == "p" and t.state == "granted"]
        pp = [t for t in toks if t.kind == "p" and t.state == "pending"]
        gg = [t for t in toks if t.kind == "g" and t.state == "granted"]
        pg = [t for t in toks if t.kind == "g" and t.state == "pending"]
        cap = h.cap
        prs = h.kind == "prs"
        free = cap - h.held - len(gp)
        w = []
        w.append(("rp", P["rp"] * (1.0 if len(gp) + len(pp) < cap + 2 else 0.15)))
        w.append(("rg", P["rg"] * (1.0 if len(gg) + len(pg) < cap + 2 else 0.15)))
        if not prs:
            w.append(("put", P["put"] * min(len(gp), 3)))
            w.append(("get", P["get"] * min(len(gg), 3)))
            w.append(("cp", P["cancel"] * (1.5 * len(gp) + 0.7 * len(pp)) * (2.0 if free <= 0 and pp else 1.0)))
            w.append(("cg", P["cancel"] * (1.5 * len(gg) * (2.0 if len(gg) >= 2 else 1.0) + 0.7 * len(pg))))
            w.append(("mis", P["mis"]))
            if h.kind in ("buf", "flt"):
                w.append(("probe", P["probe"]))
        else:
            w.append(("cp", P["cancel"] * 0.7 * len(pp)))
            w.append(("cg", P["cancel"] * 0.7 * len(pg)))
        w.append(("adv", P["adv"]))
        if h.env.peek() <= h.env.now and not P["mis"] and not P["probe"]:
            # (not in runs with twin comparisons: a probe's own token events would shift what "n kernel events" means)
            w.append(("step", 0.6 * P["adv"]))
        if self.last is not None and self.last[0] == "cg":
            w = [(k, x * (3.0 if k == "rg" else 2.0 if k == "get" else 1.0)) for k, x in w]
        k = wchoice(rng, w)
        c = rng.randrange(K)
        if k == "rp":
            return ["rp", c, rng.choice(self.k["prios"]), self.name("p")]
        if k == "rg":
            f = None
            if h.ad.filt and self.k["filters"] and rng.random() < 0.45:
                f = ["tag", rng.randrange(3)]
            return ["rg", c, rng.choice(self.k["prios"]), f, self.name("g")]
        if k == "put":
            t = rng.choice(gp)
            d = rng.choice(self.lat) if h.ad.timed == "delay" else 0
            return ["put", t.c, t.name, self.name("i"), d, rng.randrange(3)]
        if k == "get":
            t = rng.choice(gg)
            return ["get", t.c, t.name]
        if k == "cp":
            pool = gp * 2 + pp if not prs else pp
            t = rng.choice(pool)
            return ["cp", t.c, t.name]
        if k == "cg":
            pool = gg * 2 + pg if not prs else pg
            t = rng.choice(pool)
            return ["cg", t.c, t.name]
        if k == "probe":
            return ["probe"]
        if k == "step":
            return ["step", rng.choice([1, 1, 2, 3])]
        if k == "mis":
            op = self.misuse(h, toks, gp, pp, gg, pg)
            if op is not None:
                return op
        return self.adv(h)

    def adv(self, h):
        rng = self.rng
        nxt = h.env.peek()
        r = rng.random()
        if r < 0.35 and nxt != INF and nxt > h.env.now:
            dt = nxt - h.env.now
            if h.env.now + dt != nxt:      # float: land exactly on the timer or not at all
                dt = rng.choice(self.lat)
        elif r < 0.45:
            dt = 0
        else:
            dt = rng.choice(self.lat)
        mode = "before" if rng.random() < 0.3 else "after"
        return ["adv", dt, mode]

    def misuse(self, h, toks, gp, pp, gg, pg):
        rng = self.rng
        K = h.K
        used_p = [t for t in toks if t.kind == "p" and t.state == "used"]
        used_g = [t for t in toks if t.kind == "g" and t.state == "used"]
        canc_p = [t for t in toks if t.kind == "p" and t.state == "cancelled"]
        canc_g = [t for t in toks if t.kind == "g" and t.state == "cancelled"]
        v = []
        c = rng.randrange(K)
        d = rng.choice(self.lat) if h.ad.timed == "delay" else 0
        v.append(lambda: ["put", c, "@fresh", self.name("i"), d, 0])
        v.append(lambda: ["get", c, "@fresh"])
        v.append(lambda: ["put", c, "@none", self.name("i"), d, 0])
        v.append(lambda: ["cp", c, "@fresh"])
        v.append(lambda: ["cg", c, "@fresh"])
        if h.kind != "prs":
            # a live reservation of another store / edge of the same class is an unknown token for this one
            v += [lambda: ["cp", c, "@foreign:p"], lambda: ["cg", c, "@foreign:g"], lambda: ["cp", c, "@foreign:g"],
                  lambda: ["put", c, "@foreign:p", self.name("i"), d, 0], lambda: ["get", c, "@foreign:g"]]
        if K >= 2:
            if gp:
                t = rng.choice(gp)
                v += [lambda t=t: ["put", (t.c + 1 + rng.randrange(K - 1)) % K, t.name, self.name("i"), d, 0]] * 3
            if gg:
                t = rng.choice(gg)
                v += [lambda t=t: ["get", (t.c + 1 + rng.randrange(K - 1)) % K, t.name]] * 3
        for pool, mk in ((used_p, "put"), (canc_p, "put"), (pp, "put"), (gg, "put")):
            if pool:
                t = rng.choice(pool)
                v += [lambda t=t: ["put", t.c, t.name, self.name("i"), d, 0]] * 2
        for pool in (used_g, canc_g, pg, gp):
            if pool:
                t = rng.choice(pool)
                v += [lambda t=t: ["get", t.c, t.name]] * 2
        for pool, kk in ((used_p, "cp"), (canc_p, "cp"), (used_g, "cg"), (canc_g, "cg")):
            if pool:
                t = rng.choice(pool)
                v.append(lambda t=t, kk=kk: [kk, t.c, t.name])
        return rng.choice(v)()


def make_case(prop, rng, tier, kind=None):
    k = gen_cfg(prop, rng, tier, kind)
    lat = LATTICES[k["lattice"]]
    fa = rng.choice([0, max(lat), 2 * max(lat)])
    cfg = k["cfg"]
    if k["kind"] in ("fls", "flt"):
        fa += rng.choice([0, 1, 2]) * (cfg["delay"] + 2 * cfg["transit"])
    if k["kind"] == "cconv":
        fa += rng.choice([0, 1, 2]) * cfg["item_length"] * cfg["cap"] / cfg["speed"]
    if k["kind"] == "sconv":
        fa += rng.choice([0, 1, 2]) * cfg["delay"] * cfg["cap"]
    case = {"layer": "A", "kind": k["kind"], "cfg": cfg, "nclients": k["K"], "ops": [], "final_adv": fa,
            "meta": {"prop": prop, "lattice": k["lattice"], "prios": k["prios"], "drain": bool(k.get("drain"))}}
    return case, GenA(rng, k)
