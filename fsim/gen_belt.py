"""Belt scenarios for C12 / C13: one real conveyor edge, a producer client (0) and a consumer client (1).

Producer: one reservation at a time, puts in the instant of the grant; gaps regular / bursty / irregular.
Consumer: per item either a standing reservation taken in the instant of availability (stall 0) or a
reservation issued `stall` after the item was offered and used at once - so a granted retrieval is never
held over time and "the head waits at the exit" is unambiguous: [offered, taken).
"""
from .rng import LATTICES
from .kernel import INF


def make_case(prop, rng, tier, kind=None):
    thorough = tier == "thorough"
    kind = kind or rng.choice(["cconv", "sconv"])
    cap = rng.choice([1, 2, 2, 3, 3, 4, 5, 6] + ([8] if thorough else []))
    lat_name = rng.choice(["dyadic", "dyadic", "unit", "decimal", "coprime"])
    lat = LATTICES[lat_name]
    pos = [x for x in lat if x > 0]
    cfg = {"cap": cap, "accumulating": rng.choice([0, 1])}
    if kind == "cconv":
        cfg["item_length"] = rng.choice([1, 1, 2])
        cfg["speed"] = rng.choice([1, 1, 2, 0.5])
        slot = cfg["item_length"] / cfg["speed"]
    else:
        cfg["delay"] = rng.choice(pos + [1])
        slot = cfg["delay"]
    n = rng.choice([2, 3, 4, 6, 8, 12] + ([20, 30] if thorough else []))
    # arrival gaps (measured from the previous entry): regular, bursty (0), irregular
    style = rng.choice(["regular", "bursty", "irregular", "irregular", "slotmult"])
    if style == "regular":
        g = rng.choice(pos + [slot, 2 * slot])
        gaps = [g] * n
    elif style == "bursty":
        gaps = [rng.choice([0, 0, 0, rng.choice(pos) * 3]) for _ in range(n)]
    elif style == "slotmult":
        gaps = [slot * rng.choice([1, 1, 2, 3]) for _ in range(n)]
    else:
        gaps = [rng.choice(lat) + rng.choice([0, slot]) for _ in range(n)]
    # consumer stalls per item
    cstyle = rng.choice(["immediate", "delayed", "mixed", "mixed", "longstall", "shortstall"])
    if prop == "C12" and rng.random() < 0.35:
        cstyle = "immediate"
    jug = None
    if rng.random() < (0.4 if prop in ("C06", "C02", "C04") else 0.15):
        # a consumer that juggles up to two retrieval reservations: takes them in either order, withdraws the older or the younger one,
        # waits in between (cancel paths of the belt stores; the kinematic oracles skip runs in which a retrieval is held over time)
        cstyle = "juggler"
        jug = [rng.choice(["rg", "rg", "rg", "get0", "get1", "get0", "c0", "c1", "wait", "wait"]) for _ in range(6 * n + 8)]
    if cstyle == "immediate":
        stalls = [0] * n
    elif cstyle == "delayed":
        d = rng.choice(pos)
        stalls = [d] * n
    elif cstyle == "longstall":
        stalls = [rng.choice([0, 0, cap * slot * rng.choice([1, 2])]) for _ in range(n)]
    elif cstyle == "shortstall":
        stalls = [rng.choice([0, slot / 2, slot / 4]) for _ in range(n)]
    else:
        stalls = [rng.choice([0, 0] + pos) for _ in range(n)]
    # a producer may hold its granted entry reservation before it puts: not at all / for a lattice delay / until the next kernel
    # event (e.g. the instant the head reaches the exit), arriving before that instant's events and letting 0-3 of them run first
    hold_run = rng.random() < 0.3
    holds = []
    for _ in range(n):
        r = rng.random()
        if not hold_run or r < 0.5:
            holds.append(["now", 0, 0])
        elif r < 0.7:
            holds.append(["lat", rng.choice(pos), 0])
        else:
            holds.append(["kernel", 0, rng.choice([0, 0, 1, 1, 2, 3])])
    producers = 2 if rng.random() < 0.25 else 1       # two feeders (e.g. two workers of one machine), each with its own reservation
    gaps2 = [rng.choice(lat) + rng.choice([0, slot]) for _ in range(n)]
    # a late start: the same scenario far from t=0 (absolute-clock arithmetic: tolerances relative to `now`, rounding of large times)
    t0 = rng.choice([0] * 8 + [65536, 1048576])
    case = {"layer": "A", "kind": kind, "cfg": cfg, "nclients": 3, "ops": [], "final_adv": 0,
            "meta": {"prop": prop, "lattice": lat_name, "scenario": {"gaps": gaps, "gaps2": gaps2, "producers": producers, "stalls": stalls, "n": n, "holds": holds, "t0": t0, "jug": jug,
                                                                   "style": style, "cstyle": cstyle}}}
    return case, GenBelt(case["meta"]["scenario"], slot, cap)


class GenBelt:
    def __init__(self, sc, slot, cap):
        self.sc = sc
        self.n = sc["n"]
        self.produced = 0
        self.consumed = 0
        self.k = 0
        self.next_put = sc["gaps"][0]
        self.nprod = sc.get("producers", 1)
        self.next_put2 = sc.get("gaps2", [0])[0]
        self.k2 = 0
        self.take_at = None
        self.count = 0
        self.maxops = 40 + 12 * self.n
        self.horizon = None
        self.slot, self.cap = slot, cap
        self.plans = {}
        self.nplans = 0
        self.jk = 0
        self.jug_tick = None

    def name(self, p):
        self.k += 1
        return f"{p}{self.k}"

    def juggle(self, h, now, gg, pg, jug):
        """One consumer action of the juggling style, or None (let producers act / time pass)."""
        if self.jug_tick is not None and now < self.jug_tick:
            return None
        gg = sorted(gg, key=lambda t: t.granted_seq)
        for _ in range(4):
            code = jug[self.jk % len(jug)]
            self.jk += 1
            if code == "wait":
                self.jug_tick = now + self.slot / 2
                return None
            if code == "rg" and len(gg) + len(pg) < 2 and self.consumed + len(gg) + len(pg) < self.n:
                return ["rg", 1, 0, None, self.name("g")]
            if code in ("get0", "get1") and gg:
                self.consumed += 1
                return ["get", 1, (gg[0] if code == "get0" else gg[-1]).name]
            if code in ("c0", "c1") and gg:
                return ["cg", 1, (gg[0] if code == "c0" else gg[-1]).name]
        self.jug_tick = now + self.slot / 2
        return None

    def mk_plan(self, h, now):
        hs = self.sc.get("holds") or [["now", 0, 0]]
        kind, val, steps = hs[self.nplans % len(hs)]
        self.nplans += 1
        pl = {"at": now, "mode": "after", "steps": 0, "stepped": False}
        if kind == "lat":
            pl["at"] = now + val
        elif kind == "kernel":
            nxt = h.env.peek()
            if nxt != INF and nxt > now and now + (nxt - now) == nxt:
                pl.update(at=nxt, mode="before", steps=steps)
        return pl

    def __call__(self, h):
        self.count += 1
        if self.count > self.maxops:
            return None
        if self.count == 1 and self.sc.get("t0"):
            self.next_put += self.sc["t0"]
            self.next_put2 += self.sc["t0"]
            return ["adv", self.sc["t0"], "after"]
        now = h.env.now
        toks = h.toks.values()
        gp = [t for t in toks if t.kind == "p" and t.state == "granted"]
        pp = [t for t in toks if t.kind == "p" and t.state == "pending"]
        gg = [t for t in toks if t.kind == "g" and t.state == "granted"]
        pg = [t for t in toks if t.kind == "g" and t.state == "pending"]
        jug = self.sc.get("jug")
        if jug:
            op = self.juggle(h, now, gg, pg, jug)
            if op is not None:
                return op
        elif gg:
            self.consumed += 1
            self.take_at = None
            return ["get", 1, gg[0].name]
        due = None
        for t in gp:
            pl = self.plans.get(t.name)
            if pl is None:
                pl = self.plans[t.name] = self.mk_plan(h, now)
            if now >= pl["at"] and due is None:
                due = (t, pl)
        if due is not None and due[1]["steps"] and not due[1]["stepped"]:
            due[1]["stepped"] = True
            return ["step", due[1]["steps"]]
        if due is not None:
            t = due[0]
            self.produced += 1
            if t.c == 0:
                if self.produced < self.n:
                    self.next_put = now + self.sc["gaps"][self.produced]
            else:
                self.k2 += 1
                self.next_put2 = now + self.sc["gaps2"][self.k2 % len(self.sc["gaps2"])]
            return ["put", t.c, t.name, self.name("i"), 0, 0]
        if self.consumed >= self.n:
            return None
        # consumer
        if not jug and not pg and self.consumed + 0 < self.n:
            stall = self.sc["stalls"][min(self.consumed, self.n - 1)]
            ready = bool(h.bind.order)
            if stall == 0:
                return ["rg", 1, 0, None, self.name("g")]
            if ready:
                if self.take_at is None:
                    self.take_at = now + stall
                if now >= self.take_at:
                    return ["rg", 1, 0, None, self.name("g")]
        # producer(s): one outstanding reservation each
        out0 = any(t.c == 0 for t in pp + gp)
        out2 = any(t.c == 2 for t in pp + gp)
        if not out0 and self.produced + len(pp) + len(gp) < self.n and now >= self.next_put:
            return ["rp", 0, 0, self.name("p")]
        if self.nprod == 2 and not out2 and self.produced + len(pp) + len(gp) < self.n and now >= self.next_put2:
            return ["rp", 2, 0, self.name("p")]
        # let time pass: next kernel event or next planned action
        if h.env.peek() <= now:
            return ["adv", 0, "after"]          # finish the current instant first
        cands = [h.env.peek()]
        if self.produced < self.n and not out0 and self.next_put > now:
            cands.append(self.next_put)
        if self.nprod == 2 and self.produced < self.n and not out2 and self.next_put2 > now:
            cands.append(self.next_put2)
        if self.take_at is not None and self.take_at > now:
            cands.append(self.take_at)
        if self.jug_tick is not None and self.jug_tick > now:
            cands.append(self.jug_tick)
        held = [pl for t in gp for pl in [self.plans.get(t.name)] if pl is not None and pl["at"] > now]
        cands += [pl["at"] for pl in held]
        tgt = min(cands)
        if any(pl["at"] == tgt and pl["mode"] == "before" for pl in held) and tgt != INF:
            return ["adv", tgt - now, "before"]
        if tgt == INF or tgt <= now:
            if self.horizon is None:
                self.horizon = 0
            self.horizon += 1
            if self.horizon > 3:
                return None
            return ["adv", self.slot * self.cap, "after"]
        return ["adv", tgt - now, "after"]
