"""C14 - fleet reference checks, phrased on observable instants only (see DESIGN.md section 4, C14).

l(x): load (put) instant, a(x): instant x becomes available (first seen in the ready list), tau: transit delay.
The departure of a delivery that becomes available at a is a - 2*tau.
"""
EPS = 1e-9


def check_fleet(h):
    cfg = h.cfg
    tau, delay, cap = cfg["transit"], cfg["delay"], cfg["cap"]
    T = h.env.now
    items = [r for r in h.items.values() if r.put_t is not None]
    items.sort(key=lambda r: r.put_seq)
    if not items:
        return
    lab = ()
    # (b) full round trip, (d) waiting bound
    for r in items:
        if r.avail_t is not None:
            if r.avail_t < r.put_t + 2 * tau - EPS:
                h.violate("C14", "round-trip", f"{r.name} loaded at {r.put_t} became available at {r.avail_t}, before a full round trip 2*{tau}", feat=lab)
            if r.avail_t - r.put_t > delay + 2 * tau + EPS:
                h.violate("C14", "waiting-bound", f"{r.name} loaded at {r.put_t} became available only at {r.avail_t}: waited longer than delay {delay} + round trip {2*tau}", feat=lab)
        elif T - r.put_t > delay + 2 * tau + EPS:
            h.violate("C14", "waiting-bound", f"{r.name} loaded at {r.put_t} is still not available at {T}: waited longer than delay {delay} + round trip {2*tau}", feat=lab)
    # (a) whole batches in loading order
    groups = {}
    for r in items:
        if r.avail_t is not None:
            groups.setdefault(r.avail_t, []).append(r)
    for a, g in sorted(groups.items()):
        dep = a - 2 * tau
        g.sort(key=lambda r: r.avail_seq)
        if [r.put_seq for r in g] != sorted(r.put_seq for r in g):
            h.violate("C14", "loading-order", f"delivery at {a}: items became available in order {[r.name for r in g]}, loaded in order "
                      f"{[r.name for r in sorted(g, key=lambda r: r.put_seq)]}", feat=lab)
        for r in g:
            if r.put_t > dep + EPS:
                h.violate("C14", "rode-along", f"{r.name} loaded at {r.put_t}, after the departure at {dep}, was delivered with that trip at {a}", feat=lab)
        for y in items:
            if y.put_t < dep - EPS and (y.avail_t is None or y.avail_t > a + EPS):
                h.violate("C14", "left-behind", f"{y.name} loaded at {y.put_t} was waiting at the departure at {dep} but was not in the delivery at {a} "
                          f"(delivered {[r.name for r in g]}; it became available at {y.avail_t})", feat=lab)
                break
        if len(g) > 1:
            h.probe("c14_batch_of_several")
    # (c) capacity trigger: the put that fills the fleet makes it depart at once
    held = 0
    evs = sorted([x for x in h.hist if x[0] in ("put", "get")], key=lambda x: x[1])
    for x in evs:
        if x[0] == "put":
            held += 1
            if held == cap:
                t = x[2]
                r = h.items[x[3]]
                h.probe("c14_capacity_reached")
                if t + 2 * tau <= T - EPS or r.avail_t is not None:
                    if r.avail_t is None or abs(r.avail_t - (t + 2 * tau)) > EPS:
                        h.violate("C14", "capacity-trigger", f"the load of {r.name} at {t} filled the fleet (capacity {cap}) but it became available at "
                                  f"{r.avail_t}, not one round trip later ({t + 2*tau})", feat=lab)
        else:
            held -= 1
    # reach probes
    deps = sorted({a - 2 * tau for a in groups})
    for r in items:
        if any(abs(r.put_t - d) <= EPS for d in deps):
            h.probe("c14_load_in_departure_instant")
        if any(d + EPS < r.put_t < d + 2 * tau - EPS for d in deps):
            h.probe("c14_load_during_trip")
