def check_fleet(h):
    return
