"""C14 - fleet reference checks, phrased on observable instants only (see DESIGN.md section 4, C14).

l(x): load (put) instant, a(x): instant x becomes available (first seen in the ready list), tau: transit delay.
The departure of a delivery that becomes available at a is a - 2*tau.
"""
EPS = 1e-9


def check_fleet(h):
    cfg = h.cfg
    tau, delay, cap = cfg["transit"], cfg["delay"], cfg["cap"]
    T = h.env.now
    items = [r for r in h.items.values() if r.put_t is not None]
    items.sort(key=lambda r: r.put_seq)
    if not items:
        return
    lab = ()
    # (b) full round trip, (d) waiting bound
    for r in items:
        if r.avail_t is not None:
            if r.avail_t < r.put_t + 2 * tau - EPS:
                h.violate("C14", "round-trip", f"{r.name} loaded at {r.put_t} became available at {r.avail_t}, before a full round trip 2*{tau}", feat=lab)
            if r.avail_t - r.put_t > delay + 2 * tau + EPS:
                h.violate("C14", "waiting-bound", f"{r.name} loaded at {r.put_t} became available only at {r.avail_t}: waited longer than delay {delay} + round trip {2*tau}", feat=lab)
        elif T - r.put_t > delay + 2 * tau + EPS:
            h.violate("C14", "waiting-bound", f"{r.name} loaded at {r.put_t} is still not available at {T}: waited longer than delay {delay} + round trip {2*tau}", feat=lab)
    # (a) whole batches in loading order
    groups = {}
    for r in items:
        if r.avail_t is not None:
            groups.setdefault(r.avail_t, []).append(r)
    for a, g in sorted(groups.items()):
        dep = a - 2 * tau
        g.sort(key=lambda r: r.avail_seq)
        if [r.put_seq for r in g] != sorted(r.put_seq for r in g):
            h.violate("C14", "loading-order", f"delivery at {a}: items became available in order {[r.name for r in g]}, loaded in order "
                      f"{[r.name for r in sorted(g, key=lambda r: r.put_seq)]}", feat=lab)
        for r in g:
            if r.put_t > dep + EPS:
                h.violate("C14", "rode-along", f"{r.name} loaded at {r.put_t}, after the departure at {dep}, was delivered with that trip at {a}", feat=lab)
        for y in items:
            if y.put_t < dep - EPS and (y.avail_t is None or y.avail_t > a + EPS):
                h.violate("C14", "left-behind", f"{y.name} loaded at {y.put_t} was waiting at the departure at {dep} but was not in the delivery at {a} "
                          f"(delivered {[r.name for r in g]}; it became available at {y.avail_t})", feat=lab)
                break
        if len(g) > 1:
            h.probe("c14_batch_of_several")
    # (c) capacity trigger: the put that fills the fleet makes it depart at once
    held = 0
    evs = sorted([x for x in h.hist if x[0] in ("put", "get")], key=lambda x: x[1])
    for x in evs:
        if x[0] == "put":
            held += 1
            if held == cap:
                t = x[2]
                r = h.items[x[3]]
                h.probe("c14_capacity_reached")
                if t + 2 * tau <= T - EPS or r.avail_t is not None:
                    if r.avail_t is None or abs(r.avail_t - (t + 2 * tau)) > EPS:
                        h.violate("C14", "capacity-trigger", f"the load of {r.name} at {t} filled the fleet (capacity {cap}) but it became available at "
                                  f"{r.avail_t}, not one round trip later ({t + 2*tau})", feat=lab)
        else:
            held -= 1
    # (f) every departure is justified: the fleet filled up, or a waiting delay expired.  The statement does not fix the
    # phase of the waiting delay, so a departure is accepted under every reading: a multiple of `delay` after the fleet was
    # created or last filled up (the library's periodic timer), or `delay` after the oldest waiting item was loaded.
    fills = []
    held = 0
    for x in evs:
        if x[0] == "put":
            held += 1
            if held == cap:
                fills.append(x[2])
        else:
            held -= 1
    put_times = sorted({r.put_t for r in items})
    for a, g in sorted(groups.items()):
        dep = a - 2 * tau
        tol = 1e-9 * max(1.0, abs(a))
        if any(abs(dep - f) <= tol for f in fills):
            continue
        if delay <= 0:
            if any(abs(dep - t) <= tol for t in put_times):
                continue
        else:
            base = max([f for f in fills if f < dep - tol] + [0])
            k = (dep - base) / delay
            if k > 0.5 and abs(k - round(k)) * delay <= 1e-9 * max(1.0, abs(dep)) * max(1, round(k)):
                continue
            oldest = min(r.put_t for r in g)
            if abs(dep - (oldest + delay)) <= tol:
                continue
        h.violate("C14", "unjustified-departure", f"delivery at {a} means a departure at {dep} with {[r.name for r in g]}: the fleet held fewer than {cap} items "
                  f"and no waiting delay ({delay}) had expired (fleet filled up at {fills}, oldest item of the batch loaded at {min(r.put_t for r in g)})", feat=lab)
        break
    # reach probes
    deps = sorted({a - 2 * tau for a in groups})
    for r in items:
        if any(abs(r.put_t - d) <= EPS for d in deps):
            h.probe("c14_load_in_departure_instant")
        if any(d + EPS < r.put_t < d + 2 * tau - EPS for d in deps):
            h.probe("c14_load_during_trip")
