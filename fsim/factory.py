"""Layer B - whole-factory simulation: build a model of REAL nodes and edges from a JSON case, wrap every
store of every edge with an observer (instance attributes only, no repo change), run it inside a
SimEnv and record the store-level history plus every value handed out by stub callables."""
import random

from . import load_repo
from .kernel import SimEnv, Livelock, HarnessCap, ClockWentBack

load_repo()

from factorysimpy.nodes.node import Node  # noqa: E402
from factorysimpy.nodes.source import Source  # noqa: E402
from factorysimpy.nodes.machine import Machine  # noqa: E402
from factorysimpy.nodes.splitter import Splitter  # noqa: E402
from factorysimpy.nodes.combiner import Combiner  # noqa: E402
from factorysimpy.nodes.sink import Sink  # noqa: E402
from factorysimpy.edges.buffer import Buffer  # noqa: E402
from factorysimpy.edges.fleet import Fleet  # noqa: E402
from factorysimpy.edges import continuous_conveyor, slotted_conveyor  # noqa: E402
from factorysimpy.helper.item import Item  # noqa: E402
from factorysimpy.helper.pallet import Pallet  # noqa: E402

BIG = 10 ** 9


class ValueSource:
    """Stub user callable: hands out a recorded list of values (cycled; `tail` after the list when given)
    and logs every consultation with the instant."""

    def __init__(self, run, owner, what, vals, tail=None):
        self.run, self.owner, self.what = run, owner, what
        self.vals = list(vals)
        self.tail = tail
        self.calls = []          # (seq, t, value)
        self.i = 0

    def _next(self):
        if self.i < len(self.vals):
            v = self.vals[self.i]
        elif self.tail is not None:
            v = self.tail
        else:
            v = self.vals[self.i % len(self.vals)]
        self.i += 1
        env = self.run.env
        self.calls.append((env.seq, env.now, v))
        self.run.log.append((self.what, env.seq, env.now, self.owner, v))
        return v

    def fn(self):
        return self._next()

    def gen(self):
        while True:
            yield self._next()


def mk_value(run, owner, what, spec):
    """spec: number | {"form": "const"|"callable"|"generator", "vals": [...], "tail": x}"""
    if not isinstance(spec, dict):
        return spec, None
    form = spec["form"]
    if form == "const":
        return spec["vals"][0], None
    vs = ValueSource(run, owner, what, spec["vals"], spec.get("tail"))
    return (vs.fn if form == "callable" else vs.gen()), vs


# ---- chaos peers (stubs that only speak the public edge API) --------------------------------------
class ChaosConsumer(Node):
    """Takes the place of a sink.  script: list of [pause, mode]; mode 'take' = reserve, wait for the grant, get;
    'cancel' = reserve, wait `hold`, cancel (granted or not), i.e. a consumer that times out and retries."""

    def __init__(self, env, id, script, hold=0.0):
        super().__init__(env, id)
        self.script = script
        self.hold = hold
        self.stats = {"num_item_received": 0, "total_cycle_time": 0.0}
        self.state = "CHAOS"
        self.received = []
        env.process(self.behaviour())

    def behaviour(self):
        env = self.env
        k = 0
        while True:
            pause, mode = self.script[k % len(self.script)]
            k += 1
            if pause > 0:
                yield env.timeout(pause)
            edge = self.in_edges[(k // 3) % len(self.in_edges)]
            tok = edge.reserve_get()
            if mode == "cancel":
                yield env.timeout(self.hold)
                tok.resourcename.reserve_get_cancel(tok)
                continue
            yield tok
            if self.hold and mode == "late":
                yield env.timeout(self.hold)
            item = edge.get(tok)
            self.received.append((env.now, item))
            self.stats["num_item_received"] += 1


class ChaosProducer(Node):
    """Takes the place of a source.  script: list of [pause, burst]; burst = number of items pushed back to back
    (reserve, wait, put - several reservations are requested at once so that grants coincide)."""

    def __init__(self, env, id, script, item_length=1, n_max=60):
        super().__init__(env, id)
        self.script = script
        self.item_length = item_length
        self.n_max = n_max
        self.stats = {"num_item_generated": 0, "num_item_discarded": 0}
        self.state = "CHAOS"
        self.made = 0
        env.process(self.behaviour())

    def behaviour(self):
        env = self.env
        k = 0
        while self.made < self.n_max:
            pause, burst = self.script[k % len(self.script)]
            k += 1
            if pause > 0:
                yield env.timeout(pause)
            edge = self.out_edges[k % len(self.out_edges)]
            toks = [edge.reserve_put() for _ in range(burst)]
            for tok in toks:
                yield tok
                self.made += 1
                it = Item(f"item_{self.id}_{self.made}")
                it.length = self.item_length
                it.set_creation(self.id, env)
                self.stats["num_item_generated"] += 1
                edge.put(tok, it)
        yield env.event()   # done: sleep forever


# ---- the run ------------------------------------------------------------------------------------------
class TokRec:
    __slots__ = ("id", "kind", "edge", "actor", "t", "seq", "state", "granted_t", "granted_seq", "ev", "end_t", "end_seq")

    def __init__(self, id, kind, edge, actor, t, seq, ev):
        self.id, self.kind, self.edge, self.actor, self.t, self.seq, self.ev = id, kind, edge, actor, t, seq, ev
        self.state = "pending"
        self.granted_t = self.granted_seq = None
        self.end_t = self.end_seq = None


class FactoryRun:
    def __init__(self, case):
        self.case = case
        self.env = SimEnv(livelock_cap=case.get("livelock_cap", 20000), step_cap=case.get("step_cap", 400000))
        self.nodes = {}
        self.edges = {}
        self.ntype = {}
        self.etype = {}
        self.log = []
        self.toks = {}              # id(event) -> TokRec (events kept alive by TokRec.ev)
        self.tokseq = 0
        self.vsrc = {}              # (node, what) -> ValueSource
        self.items = {}             # item id -> object, first time seen
        self.crash = None
        self.build_error = None
        self.store_of = {}          # id(store) -> edge id
        self.hooks_instant = []
        self.hooks_event = [self.scan_ready]
        self.avail_seen = {}

    # -- attribution ---------------------------------------------------------------------------------
    def actor(self):
        p = self.env.active_process
        if p is None:
            return None
        g = getattr(p, "_generator", None)
        fr = getattr(g, "gi_frame", None)
        if fr is None:
            return None
        s = fr.f_locals.get("self")
        return getattr(s, "id", None)

    # -- observer ------------------------------------------------------------------------------------
    def observe(self, eid, edge):
        run = self
        env = self.env
        store = getattr(edge, "inbuiltstore", None) or getattr(edge, "belt", None)
        self.store_of[id(store)] = eid
        cls = type(edge).__name__
        tuple_items = cls in ("Buffer",) or "Conveyor" in cls

        def unwrap(x):
            return x[0] if isinstance(x, tuple) else x

        o_rp, o_rg, o_put, o_get = store.reserve_put, store.reserve_get, store.put, store.get
        o_cp, o_cg = store.reserve_put_cancel, store.reserve_get_cancel

        def reg(ev, kind):
            run.tokseq += 1
            t = TokRec(run.tokseq, kind, eid, run.actor(), env.now, env.seq, ev)
            run.toks[id(ev)] = t
            run.log.append(("r" + kind, env.seq, env.now, eid, t.id, t.actor))
            if ev.triggered:
                t.state = "granted"
                t.granted_t, t.granted_seq = env.now, env.seq
                if kind == "g":
                    run.scan_ready(eid)
                run.log.append(("grant", env.seq, env.now, eid, t.id, kind, t.actor))
            else:
                orig = ev.succeed

                def hooked(value=None, _t=t, _o=orig):
                    r = _o(value)
                    if _t.state == "pending":
                        _t.state = "granted"
                        _t.granted_t, _t.granted_seq = env.now, env.seq
                        if _t.kind == "g":
                            run.scan_ready(eid)
                        run.log.append(("grant", env.seq, env.now, eid, _t.id, _t.kind, _t.actor))
                    return r
                ev.succeed = hooked
            return t

        def rp(*a, **k):
            ev = o_rp(*a, **k)
            reg(ev, "p")
            return ev

        def rg(*a, **k):
            ev = o_rg(*a, **k)
            reg(ev, "g")
            return ev

        def put(ev, item, *a, **k):
            t = run.toks.get(id(ev))
            it = unwrap(item)
            iid = getattr(it, "id", None)
            if iid is not None and iid not in run.items:
                run.items[iid] = it
            # logged BEFORE the call: the store serves waiting retrievals from inside put()
            run.log.append(("put", env.seq, env.now, eid, t.id if t else None, iid, run.actor()))
            idx = len(run.log) - 1
            try:
                r = o_put(ev, item, *a, **k)
            except BaseException as e:
                run.log[idx] = ("put-failed", env.seq, env.now, eid, t.id if t else None, iid, run.actor(), repr(e))
                raise
            if t:
                t.state = "used"
                t.end_t, t.end_seq = env.now, env.seq
            return r

        def get(ev, *a, **k):
            t = run.toks.get(id(ev))
            try:
                it = o_get(ev, *a, **k)
            except BaseException as e:
                run.log.append(("get-failed", env.seq, env.now, eid, t.id if t else None, None, run.actor(), repr(e)))
                raise
            iid = getattr(it, "id", None)
            run.log.append(("get", env.seq, env.now, eid, t.id if t else None, iid, run.actor()))
            if t:
                t.state = "used"
                t.end_t, t.end_seq = env.now, env.seq
            return it

        def cp(ev, *a, **k):
            t = run.toks.get(id(ev))
            was = t.state if t else None
            if t:
                t.state = "cancelled"
                t.end_t, t.end_seq = env.now, env.seq
            run.log.append(("cp", env.seq, env.now, eid, t.id if t else None, run.actor(), was))
            return o_cp(ev, *a, **k)

        def cg(ev, *a, **k):
            t = run.toks.get(id(ev))
            was = t.state if t else None
            if t:
                t.state = "cancelled"
                t.end_t, t.end_seq = env.now, env.seq
            run.log.append(("cg", env.seq, env.now, eid, t.id if t else None, run.actor(), was))
            return o_cg(ev, *a, **k)

        store.reserve_put, store.reserve_get, store.put, store.get = rp, rg, put, get
        store.reserve_put_cancel, store.reserve_get_cancel = cp, cg
        if hasattr(edge, "can_put"):
            o_can = edge.can_put

            def can_put():
                r = o_can()
                run.log.append(("canput", env.seq, env.now, eid, bool(r), run.actor()))
                return r
            edge.can_put = can_put

    def scan_ready(self, eid=None):
        """Log ('avail', ...) for items that have become retrievable (first seen in an edge's ready list)."""
        env = self.env
        for e in ([eid] if eid is not None else list(self.edges)):
            seen = self.avail_seen.setdefault(e, set())
            for it in self.edge_ready(e):
                iid = getattr(it, "id", None)
                if iid not in seen:
                    seen.add(iid)
                    self.log.append(("avail", env.seq, env.now, e, iid))

    # -- contents probes -----------------------------------------------------------------------------
    def edge_items(self, eid):
        e = self.edges[eid]
        st = getattr(e, "inbuiltstore", None) or getattr(e, "belt", None)
        out = [x[0] if isinstance(x, tuple) else x for x in st.items]
        out += list(getattr(st, "ready_items", []))
        return out

    def edge_ready(self, eid):
        e = self.edges[eid]
        st = getattr(e, "inbuiltstore", None) or getattr(e, "belt", None)
        return list(getattr(st, "ready_items", []))

    def edge_store(self, eid):
        e = self.edges[eid]
        return getattr(e, "inbuiltstore", None) or getattr(e, "belt", None)

    # -- build --------------------------------------------------------------------------------------
    def build(self):
        case = self.case
        env = self.env
        specs = {n["id"]: n for n in case["nodes"]}
        especs = {e["id"]: e for e in case["edges"]}
        order = case.get("order") or ([n["id"] for n in case["nodes"]] + [e["id"] for e in case["edges"]])
        random.seed(case.get("random_seed", 0))     # module `random` feeds the repo's RANDOM policy
        for oid in order:
            if oid in specs:
                self._mk_node(specs[oid])
            else:
                self._mk_edge(especs[oid])
        for eid in case.get("connect_order") or [e["id"] for e in case["edges"]]:
            es = especs[eid]
            self.edges[eid].connect(self.nodes[es["src"]], self.nodes[es["dst"]])

    def _val(self, nid, what, spec):
        v, vs = mk_value(self, nid, what, spec)
        if vs is not None:
            self.vsrc[(nid, what)] = vs
        return v

    def _pol(self, nid, side, spec):
        if isinstance(spec, dict):
            return self._val(nid, "policy_" + side, spec)
        return spec

    def _mk_node(self, n):
        env, t, nid = self.env, n["type"], n["id"]
        self.ntype[nid] = t
        if t == "source":
            kw = dict(item_length=n.get("item_length", 1), flow_item_type=n.get("flow", "item"),
                      inter_arrival_time=self._val(nid, "iat", n["iat"]), blocking=n.get("blocking", True),
                      out_edge_selection=self._pol(nid, "out", n.get("out_sel", "FIRST_AVAILABLE")))
            obj = Source(env, nid, **kw)
        elif t == "machine":
            obj = Machine(env, nid, node_setup_time=n.get("setup", 0), work_capacity=n.get("wc", 1),
                          processing_delay=self._val(nid, "pdelay", n.get("pdelay", 0)), blocking=n.get("blocking", True),
                          in_edge_selection=self._pol(nid, "in", n.get("in_sel", "FIRST_AVAILABLE")),
                          out_edge_selection=self._pol(nid, "out", n.get("out_sel", "FIRST_AVAILABLE")))
        elif t == "splitter":
            obj = Splitter(env, nid, node_setup_time=n.get("setup", 0), processing_delay=self._val(nid, "pdelay", n.get("pdelay", 0)),
                           blocking=n.get("blocking", True), split_quantity=n.get("split_quantity"),      # documented as ignored in mode UNPACK
                           in_edge_selection=self._pol(nid, "in", n.get("in_sel", "FIRST_AVAILABLE")),
                           out_edge_selection=self._pol(nid, "out", n.get("out_sel", "FIRST_AVAILABLE")))
        elif t == "combiner":
            obj = Combiner(env, nid, node_setup_time=n.get("setup", 0), target_quantity_of_each_item=list(n["recipe"]),
                           processing_delay=self._val(nid, "pdelay", n.get("pdelay", 0)), blocking=n.get("blocking", True),
                           out_edge_selection=self._pol(nid, "out", n.get("out_sel", "FIRST_AVAILABLE")))
        elif t == "sink":
            obj = Sink(env, nid, node_setup_time=n.get("setup", 0))
        elif t == "chaos_consumer":
            obj = ChaosConsumer(env, nid, n["script"], n.get("hold", 0.0))
        elif t == "chaos_producer":
            obj = ChaosProducer(env, nid, n["script"], n.get("item_length", 1), n.get("n_max", 60))
        else:
            raise ValueError(t)
        self.nodes[nid] = obj

    def _mk_edge(self, e):
        env, t, eid = self.env, e["type"], e["id"]
        self.etype[eid] = t
        if t == "buffer":
            obj = Buffer(env, eid, capacity=e["cap"], delay=self._val(eid, "edelay", e.get("delay", 0)), mode=e.get("mode", "FIFO"))
        elif t == "fleet":
            obj = Fleet(env, eid, capacity=e["cap"], delay=e.get("delay", 1), transit_delay=e.get("transit", 0))
        elif t == "cconv":
            L = e.get("item_length", 1)
            obj = continuous_conveyor.ConveyorBelt(env, eid, conveyor_length=e["cap"] * L, speed=e.get("speed", 1), item_length=L,
                                                   accumulating=e.get("accumulating", 1))
        elif t == "sconv":
            obj = slotted_conveyor.ConveyorBelt(env, eid, capacity=e["cap"], delay=e.get("delay", 1), accumulating=e.get("accumulating", 1))
        else:
            raise ValueError(t)
        self.edges[eid] = obj
        self.observe(eid, obj)

    # -- run ----------------------------------------------------------------------------------------
    def run(self, T):
        env = self.env
        if not getattr(self, "_hooked", False):
            env.after_event.extend(self.hooks_event)
            env.at_instant_end.extend(self.hooks_instant)
            self._hooked = True
        if self.crash is not None:
            return
        try:
            while env.peek() <= T:
                env.step()
            if env.now < T:
                env._now = T
        except Livelock as e:
            self.crash = ("livelock", str(e), None)
        except ClockWentBack as e:
            self.crash = ("clock-went-back", str(e), None)
        except HarnessCap:
            raise
        except Exception as e:
            cause = e
            while cause.__cause__ is not None:      # simpy re-creates the exception at every process boundary
                cause = cause.__cause__
            tb = cause.__traceback__
            where = None
            while tb is not None:
                fn = tb.tb_frame.f_code.co_filename
                if "factorysimpy" in fn:
                    where = f"{fn.split('factorysimpy/')[-1]}:{tb.tb_frame.f_code.co_name}"
                tb = tb.tb_next
            if where is None and "fsim" in (cause.__traceback__.tb_frame.f_code.co_filename if cause.__traceback__ else ""):
                # raised by harness code running inside a process (observer / stub): harness error
                pass
            self.crash = (type(e).__name__, str(e), where)
            if where is None:
                raise
