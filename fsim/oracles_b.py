"""Layer B oracles: history-derived bookkeeping of every item, token, node and edge, evaluated after every
kernel event / at the end of every instant / at the end of the run.

All oracles run in every factory run; a check command reports only the violations of its own property.
"""
from fractions import Fraction

from .layer_a import norm_msg

PROC = ("machine", "splitter", "combiner")
TOL = 1e-9


def close(a, b, tol=TOL):
    return abs(a - b) <= tol * max(1.0, abs(a), abs(b))


class NodeRec:
    def __init__(self, nid, ntype, spec):
        self.id, self.type, self.spec = nid, ntype, spec
        self.blocking = spec.get("blocking", True)
        self.held = {}            # item id -> lifecycle dict
        self.life = []            # all lifecycles in pull order
        self.pulls = []           # (seq, t, in-edge index, item)
        self.pushes = []          # (seq, t, out-edge index, item)
        self.offers = []          # (seq, t, kind rp|canput, out-edge index, result)
        self.drops = 0            # history-derived number of dropped units
        self.looked_dropped = {}  # item id -> lifecycle of items the node stopped referencing
        self.first_seen = 0
        self.npulled = 0
        # splitter
        self.pallet = None
        self.content = None
        self.emitted = None
        self.disc_at_pull = 0
        # combiner
        self.gathered = None
        self.last_ing_t = None


class EdgeRec:
    def __init__(self, eid, etype, spec):
        self.id, self.type, self.spec = eid, etype, spec
        self.cap = spec["cap"]
        self.count = 0
        self.inside = {}
        self.integ = Fraction(0)
        self.integ_t = 0
        self.puts = []
        self.gets = []


class Oracles:
    def __init__(self, run):
        self.run = run
        self.case = run.case
        self.meta = self.case.get("meta", {})
        self.viol = []
        self.faults = {}
        self.probes = {}
        self.pos = 0
        self.nrec = {}
        self.erec = {}
        self.loc = {}
        self.in_idx = {}
        self.out_idx = {}
        self.stopped = False
        self.blocked_seen = False
        self.recv = {}            # sink -> [(t, item id)]
        self.binds = {}           # edge -> BindModel

    # ---- plumbing --------------------------------------------------------------------------------
    def fault(self, k, n=1):
        self.faults[k] = self.faults.get(k, 0) + n

    def probe(self, k, n=1):
        self.probes[k] = self.probes.get(k, 0) + n

    def violate(self, prop, oracle, where, msg, extra=""):
        sig = f"{prop}|{oracle}|{where}|{extra}"
        if any(v["signature"] == sig for v in self.viol):
            return
        env = self.run.env
        self.viol.append({"property": prop, "oracle": oracle, "signature": sig, "message": msg, "seq": env.seq, "time": env.now, "op_index": None})

    def nontrivial(self):
        return bool(self.blocked_seen or self.faults.get("F1_cancel_pending") or self.faults.get("F2_cancel_granted")
                    or self.faults.get("discard"))

    def nlabel(self, nid):
        r = self.nrec.get(nid)
        if r is None:
            return "?"
        if r.type in ("sink", "chaos_consumer", "chaos_producer"):
            return r.type
        return f"{r.type},{'blocking' if r.blocking else 'non-blocking'}"

    def pol(self, nid, side):
        s = self.nrec[nid].spec.get(side + "_sel", "FIRST_AVAILABLE")
        if isinstance(s, dict):
            return s["form"]
        if isinstance(s, int):
            return "const"
        return s

    def elabel(self, eid):
        r = self.erec[eid]
        s = r.spec
        if r.type == "buffer":
            return f"buffer[{s.get('mode', 'FIFO')}]"
        if r.type in ("cconv", "sconv"):
            return f"{r.type}[{'acc' if s.get('accumulating') else 'nonacc'}]"
        return r.type

    # ---- attach ------------------------------------------------------------------------------------
    def attach(self):
        run = self.run
        for n in self.case["nodes"]:
            self.nrec[n["id"]] = NodeRec(n["id"], n["type"], n)
        for e in self.case["edges"]:
            self.erec[e["id"]] = EdgeRec(e["id"], e["type"], e)
        for nid, node in run.nodes.items():
            for i, e in enumerate(node.in_edges or []):
                self.in_idx[(nid, e.id)] = i
            for i, e in enumerate(node.out_edges or []):
                self.out_idx[(nid, e.id)] = i
        run.hooks_event.append(self.on_event)
        run.hooks_instant.append(self.on_instant_end)

    def stat(self, nid, key, default=0):
        return getattr(self.run.nodes[nid], "stats", {}).get(key, default)

    # ---- per kernel event ----------------------------------------------------------------------------
    def on_event(self):
        if self.stopped:
            return
        log = self.run.log
        while self.pos < len(log):
            r = log[self.pos]
            self.pos += 1
            k = r[0]
            if k == "put":
                self.h_put(r)
            elif k == "get":
                self.h_get(r)
            elif k == "rp":
                self.h_reserve(r)
            elif k in ("cp", "cg"):
                self.h_cancel(r)
            elif k == "canput":
                self.h_canput(r)
            elif k in ("put-failed", "get-failed"):
                self.h_failed(r)
            elif k == "pdelay":
                self.h_pdelay(r)
            elif k == "avail":
                self.bind_of(r[3]).avail(r[4], self.run.items.get(r[4]))
            elif k == "grant" and r[5] == "g":
                self.h_grant_get(r)
        self.check_capacity()
        self.check_held_caps()
        self.check_discards()

    # ---- handlers -----------------------------------------------------------------------------------
    def integrate(self, er, t):
        if t != er.integ_t:
            er.integ += Fraction(er.count) * (Fraction(t) - Fraction(er.integ_t))
            er.integ_t = t

    def h_put(self, r):
        _, seq, t, eid, tok, iid, actor = r
        er = self.erec[eid]
        nr = self.nrec.get(actor)
        if actor != er.spec["src"]:
            self.violate("C03", "put-by-foreign-node", self.elabel(eid), f"{actor} put {iid} into {eid} whose source node is {er.spec['src']}")
        self.integrate(er, t)
        er.count += 1
        er.inside[iid] = t
        er.puts.append((seq, t, iid))
        where = self.loc.get(iid)
        obj = self.run.items.get(iid)
        if where is None:
            if nr is None or nr.type not in ("source", "chaos_producer"):
                self.violate("C03", "item-invented", self.nlabel(actor), f"{actor} put {iid}, an item no source ever produced, into {eid}")
            else:
                nr.first_seen += 1
        else:
            kind, w = where
            ok = (kind == "node" and w == actor)
            if kind == "packed" and nr is not None and nr.pallet is not None and nr.pallet["item"] == w:
                ok = True
            if not ok:
                self.violate("C03", "put-of-item-not-held", self.nlabel(actor), f"{actor} put {iid} into {eid} but the item is at {where}")
        self.loc[iid] = ("edge", eid)
        if nr is not None:
            oi = self.out_idx.get((actor, eid))
            nr.pushes.append((seq, t, oi, iid, tok))
            self.node_push(nr, iid, obj, seq, t, oi, eid)

    def h_get(self, r):
        _, seq, t, eid, tok, iid, actor = r
        er = self.erec[eid]
        self.integrate(er, t)
        er.count -= 1
        er.gets.append((seq, t, iid))
        where = self.loc.get(iid)
        if where != ("edge", eid):
            self.violate("C03", "get-of-item-not-in-edge", self.elabel(eid), f"{actor} got {iid} from {eid} but the item is at {where}")
        er.inside.pop(iid, None)
        b = self.bind_of(eid)
        if not b.broken:
            why = b.get(tok, iid)
            if why:
                b.broken = True
                if er.type in ("cconv", "sconv"):
                    self.violate("C12", "exit-order", self.elabel(eid) + "(in factory)," + self.nlabel(actor), f"edge {eid}: {why}")
                self.violate("C06", "discipline", self.elabel(eid) + "," + self.nlabel(actor), f"edge {eid}: {why}")
        else:
            b.forget(iid)
        if actor != er.spec["dst"]:
            self.violate("C03", "get-by-foreign-node", self.elabel(eid), f"{actor} got {iid} from {eid} whose destination node is {er.spec['dst']}")
        nr = self.nrec.get(actor)
        if nr is None:
            return
        ii = self.in_idx.get((actor, eid))
        nr.pulls.append((seq, t, ii, iid, tok))
        nr.npulled += 1
        if nr.type in ("sink", "chaos_consumer"):
            self.loc[iid] = ("recv", actor)
            self.recv.setdefault(actor, []).append((t, iid))
            return
        self.node_pull(nr, iid, seq, t, ii, eid)

    # ---- C06 on every edge: the same nondeterministic binding model as in Layer A ---------------------------
    def bind_of(self, eid):
        b = self.binds.get(eid)
        if b is None:
            from .bindmodel import BindModel
            er = self.erec[eid]
            b = self.binds[eid] = BindModel(er.spec.get("mode", "FIFO") if er.type == "buffer" else "FIFO")
        return b

    def h_grant_get(self, r):
        _, seq, t, eid, tok, kind, actor = r
        b = self.bind_of(eid)
        if b.broken:
            return
        res = b.grant(tok)
        if res == "no-backing":
            b.broken = True
            self.violate("C02", "grant-without-item", self.elabel(eid), f"edge {eid}: retrieval reservation of {actor} granted although no available unreserved item exists")
        elif res == "overflow":
            b.broken = True

    def h_reserve(self, r):
        k, seq, t, eid, tok, actor = r
        nr = self.nrec.get(actor)
        if nr is not None:
            nr.offers.append((seq, t, "rp", self.out_idx.get((actor, eid)), None))

    def h_cancel(self, r):
        k, seq, t, eid, tok, actor, was = r
        if was == "granted" and k == "cg":
            self.bind_of(eid).cancel(tok)
        if was == "granted":
            self.fault("F2_cancel_granted")
        elif was == "pending":
            self.fault("F1_cancel_pending")

    def h_canput(self, r):
        _, seq, t, eid, res, actor = r
        nr = self.nrec.get(actor)
        er = self.erec[eid]
        if er.type in ("buffer", "fleet"):
            free = er.cap - er.count - self.granted_unused(eid, "p")
            if bool(res) != (free > 0):
                self.violate("C09", "can_put-vs-room", self.elabel(eid), f"{actor} asked {eid}.can_put() -> {res} while {er.count} items + "
                             f"{self.granted_unused(eid, 'p')} granted reservations of capacity {er.cap}")
        if nr is not None:
            nr.offers.append((seq, t, "canput", self.out_idx.get((actor, eid)), bool(res)))

    def h_pdelay(self, r):
        _, seq, t, owner, v = r
        nr = self.nrec.get(owner)
        if nr is None:
            return
        if nr.type == "combiner":
            life = nr.pallet
        else:
            life = next((l for l in reversed(nr.life) if l["d"] is None), None)
        if life is None or life["d"] is not None:
            self.violate("C08", "delay-drawn-without-item", self.nlabel(owner), f"{owner} consulted its processing delay at t={t} without a newly pulled unit of work")
            return
        life["d"] = v
        life["draw_t"] = t
        if nr.type != "combiner":
            life["finish"] = life["pull_t"] + v
            if t != life["pull_t"]:
                self.violate("C08", "delay-drawn-late", self.nlabel(owner), f"{owner} pulled {life['item']} at {life['pull_t']} but drew its delay at {t}")

    def h_failed(self, r):
        k, seq, t, eid, tok, iid, actor, err = r
        prop = "C01" if k == "put-failed" else "C02"
        self.violate(prop, k, self.elabel(eid), f"{actor}: {k} on {eid}: {err}", norm_msg(err.split("(", 1)[-1].strip("'\"")))

    # ---- node lifecycles ---------------------------------------------------------------------------------
    def node_pull(self, nr, iid, seq, t, ii, eid):
        run = self.run
        obj = run.items.get(iid)
        if nr.type == "combiner" and ii != 0:
            # the combiner packs an ingredient into the pallet at once
            pal = nr.pallet["item"] if nr.pallet else None
            self.loc[iid] = ("packed", pal)
            if nr.pallet is None or "gathered" not in nr.pallet or nr.pallet["item"] not in nr.held:
                self.violate("C16", "ingredient-without-pallet", self.nlabel(nr.id), f"{nr.id} took ingredient {iid} from in-edge {ii} without holding a pallet to fill")
            else:
                nr.pallet["gathered"].append((iid, ii))
                if len(nr.pallet["gathered"]) == sum(q for i, q in enumerate(nr.spec["recipe"]) if i >= 1):
                    nr.pallet["complete_t"] = t      # the recipe is complete: processing may start
            nr.last_ing_t = t
            return
        self.loc[iid] = ("node", nr.id)
        life = {"item": iid, "pull_t": t, "pull_seq": seq, "in": ii, "d": None, "finish": None, "leave_t": None, "leave": None, "out": None,
                "k": len(nr.life)}
        if nr.type in ("machine", "splitter"):
            vs = run.vsrc.get((nr.id, "pdelay"))
            spec = nr.spec.get("pdelay", 0)
            if vs is None:
                life["d"] = spec["vals"][0] if isinstance(spec, dict) else spec
                life["finish"] = t + life["d"]
        if nr.type == "splitter":
            if nr.pallet is not None and nr.pallet["item"] in nr.held:
                self.resolve_splitter_drop(nr, t)
            nr.pallet = life
            nr.content = [getattr(x, "id", None) for x in (getattr(obj, "items", None) or [])]
            nr.emitted = []
            nr.disc_at_pull = self.stat(nr.id, "num_item_discarded")
        elif nr.type == "combiner":
            if not hasattr(obj, "items"):
                self.violate("C16", "non-pallet-from-first-edge", self.nlabel(nr.id), f"{nr.id} took {iid} from its first in-edge; it is not a pallet")
            nr.pallet = life
            life["gathered"] = []
            life["preloaded"] = [getattr(x, "id", None) for x in (getattr(obj, "items", None) or [])]   # chained combiners
            nr.last_ing_t = t
        nr.held[iid] = life
        nr.life.append(life)

    def node_push(self, nr, iid, obj, seq, t, oi, eid):
        life = nr.held.pop(iid, None)
        if life is None:
            # the node no longer referenced this item (it looked dropped) and yet pushes it now: it held it all along
            life = nr.looked_dropped.pop(iid, None)
            if life is not None:
                nr.drops -= 1
                self.probe("item_unreferenced_by_node_but_pushed_later")
        if life is not None:
            life["leave_t"], life["leave"], life["out"], life["leave_seq"] = t, "put", oi, seq
        if nr.type == "splitter":
            self.splitter_emit(nr, iid, obj, life, t)
        elif nr.type == "combiner":
            self.combiner_emit(nr, iid, obj, life, t)

    # ---- C16 -------------------------------------------------------------------------------------------
    def splitter_emit(self, nr, iid, obj, life, t):
        if nr.pallet is None:
            self.violate("C16", "splitter-emits-without-pallet", self.nlabel(nr.id), f"{nr.id} put {iid} without having pulled a pallet")
            return
        if life is not None and life is nr.pallet:
            # the pallet itself leaves: everything it contained must have been emitted (or dropped, non-blocking)
            left = [x for x in nr.content if x not in nr.emitted]
            d = self.stat(nr.id, "num_item_discarded") - nr.disc_at_pull
            live = len(getattr(obj, "items", []) or [])
            if live != 0:
                self.violate("C16", "pallet-not-empty", self.nlabel(nr.id), f"{nr.id} emitted pallet {iid} still carrying {live} items")
            if len(left) != d:
                self.violate("C16", "splitter-lost-items", self.nlabel(nr.id),
                             f"{nr.id} emitted pallet {iid}; items {left} of its content were never emitted, discards counted meanwhile: {d}")
            nr.drops += len(left)
            if left:
                self.fault("discard", len(left))
            self.probe("c16_pallet_split")
            nr.pallet = None
            nr.content = None
            return
        if iid in nr.emitted:
            self.violate("C16", "splitter-duplicate", self.nlabel(nr.id), f"{nr.id} emitted {iid} twice")
        elif iid not in nr.content:
            self.violate("C16", "splitter-foreign-item", self.nlabel(nr.id), f"{nr.id} emitted {iid}, which was not in pallet {nr.pallet['item']} ({nr.content})")
        nr.emitted.append(iid)

    def resolve_splitter_drop(self, nr, t):
        """The splitter moved on (or is idle) while its last pallet never left: it was dropped (non-blocking)."""
        life = nr.pallet
        left = [x for x in nr.content if x not in nr.emitted]
        d = self.stat(nr.id, "num_item_discarded") - nr.disc_at_pull
        if d != len(left) + 1:
            self.violate("C03", "splitter-pallet-vanished", self.nlabel(nr.id),
                         f"{nr.id}: pallet {life['item']} and items {left} disappeared, {d} discards counted")
        if nr.blocking:
            self.violate("C09", "blocking-node-discarded", self.nlabel(nr.id), f"blocking {nr.id} dropped pallet {life['item']}")
        nr.held.pop(life["item"], None)
        life["leave_t"], life["leave"] = t, "discard"
        nr.drops += len(left) + 1
        self.fault("discard", len(left) + 1)
        nr.pallet = None
        nr.content = None

    def combiner_emit(self, nr, iid, obj, life, t):
        if life is None or not hasattr(obj, "items"):
            self.violate("C16", "combiner-emits-non-pallet", self.nlabel(nr.id), f"{nr.id} put {iid}, which is not a pallet it pulled from its first in-edge")
            return
        if life["in"] != 0:
            self.violate("C16", "pallet-not-from-first-edge", self.nlabel(nr.id), f"{nr.id} emitted {iid}, pulled from in-edge {life['in']}")
        recipe = list(nr.spec["recipe"])
        got = life.get("gathered", [])
        per = {}
        for x, ii in got:
            per[ii] = per.get(ii, 0) + 1
        want = {i: q for i, q in enumerate(recipe) if i >= 1 and q > 0}
        live = [getattr(x, "id", None) for x in obj.items]
        if per != want:
            self.violate("C16", "recipe", self.nlabel(nr.id), f"{nr.id} emitted pallet {iid} with ingredients per in-edge {per}, recipe {want}")
        pre = life.get("preloaded", [])
        if sorted(live) != sorted(pre + [x for x, _ in got]):
            self.violate("C16", "pallet-content-vs-history", self.nlabel(nr.id), f"pallet {iid} carries {live}; it arrived with {pre} and the combiner took {[x for x, _ in got]} for it")
        for x in live:
            w = self.loc.get(x)
            if w != ("packed", iid):
                self.violate("C16", "item-in-two-pallets", self.nlabel(nr.id), f"item {x} in pallet {iid} is recorded at {w}")
        self.probe("c16_pallet_packed")

    # ---- C01 on every edge ---------------------------------------------------------------------------
    def granted_unused(self, eid, kind):
        return sum(1 for tk in self.run.toks.values() if tk.edge == eid and tk.kind == kind and tk.state == "granted")

    def check_capacity(self):
        for eid, er in self.erec.items():
            g = self.granted_unused(eid, "p")
            if er.count + g > er.cap:
                self.violate("C01", "capacity", self.elabel(eid), f"edge {eid}: {er.count} items + {g} granted-unused space reservations > capacity {er.cap}")

    def check_discards(self):
        """A non-blocking FIRST_AVAILABLE node that counted a discard in this kernel event: no out-edge may have had room (C09; the
        same observation is C10's 'pushed at that instant if an out-edge has room').  The node probes and drops within one process
        step, so the edges are still in the state it saw."""
        seen = self.__dict__.setdefault("_disc_seen", {})
        for nid, nr in self.nrec.items():
            if nr.blocking or nr.type not in ("source", "machine", "splitter", "combiner"):
                continue
            d = self.stat(nid, "num_item_discarded")
            if d == seen.get(nid, 0):
                continue
            seen[nid] = d
            if self.pol(nid, "out") != "FIRST_AVAILABLE":
                continue
            out_edges = [e.id for e in (self.run.nodes[nid].out_edges or [])]
            if not all(self.erec[e].type in ("buffer", "fleet") for e in out_edges):
                continue
            for e in out_edges:
                if self.edge_room(e) > 0:
                    now = self.run.env.now
                    self.violate("C09", "discarded-although-room", self.nlabel(nid) + "," + self.elabel(e),
                                 f"non-blocking {nid} counted a discard at {now} although out-edge {e} had room ({self.erec[e].count} items + "
                                 f"{self.granted_unused(e, 'p')} granted reservations of capacity {self.erec[e].cap})")
                    self.violate("C10", "discarded-although-room", self.nlabel(nid) + "," + self.elabel(e),
                                 f"non-blocking {nid} dropped a finished unit at {now} instead of pushing it, although out-edge {e} had room")
                    break

    def check_held_caps(self):
        for nid, nr in self.nrec.items():
            if nr.type == "machine":
                wc = nr.spec.get("wc", 1)
                if len(nr.held) > wc:
                    # items dropped in this very instant are resolved at the end of the instant
                    live = self.resolve_machine_drops(nr, peek=True)
                    if live > wc:
                        self.violate("C08", "work_capacity", self.nlabel(nid), f"{nid} holds {live} items, work_capacity {wc}")

    # ---- end of instant ----------------------------------------------------------------------------------
    def on_instant_end(self):
        if self.stopped:
            return
        now = self.run.env.now
        for nr in self.nrec.values():
            if nr.type == "machine":
                self.resolve_machine_drops(nr)
            elif nr.type == "combiner":
                self.resolve_combiner(nr)
            elif nr.type == "splitter":
                self.resolve_splitter(nr)
        self.check_conservation()
        self.check_c09_c10(now)

    def machine_internal_ids(self, nid):
        node = self.run.nodes[nid]
        out = set()
        for p in node.worker_thread_list:
            it = getattr(p, "item_to_put", None)
            if it is not None:
                out.add(getattr(it, "id", None))
        if node.item_in_process is not None:
            out.add(getattr(node.item_in_process, "id", None))
        return out

    def resolve_machine_drops(self, nr, peek=False):
        """Items pulled by a machine that it no longer references were dropped."""
        if not nr.held:
            return 0
        inside = self.machine_internal_ids(nr.id)
        gone = [iid for iid in nr.held if iid not in inside]
        if peek:
            return len(nr.held) - len(gone)
        now = self.run.env.now
        for iid in gone:
            life = nr.held.pop(iid)
            life["leave_t"], life["leave"], life["leave_seq"] = now, "discard", -1
            nr.looked_dropped[iid] = life
            nr.drops += 1
            self.fault("discard")
            if nr.blocking:
                self.violate("C09", "blocking-node-discarded", self.nlabel(nr.id), f"blocking {nr.id} dropped {iid} at t={now}")
        return len(nr.held)

    def resolve_combiner(self, nr):
        """Pallets the combiner pulled and no longer references (being filled or carried by a worker) were dropped."""
        if not nr.held:
            return
        node = self.run.nodes[nr.id]
        refs = set()
        if node.pallet_in_process is not None:
            refs.add(getattr(node.pallet_in_process, "id", None))
        for p in node.worker_thread_list:
            it = getattr(p, "item_to_put", None)
            if it is not None:
                refs.add(getattr(it, "id", None))
        for iid in [x for x in nr.held if x not in refs]:
            life = nr.held.pop(iid)
            life["leave_t"], life["leave"] = self.run.env.now, "discard"
            nr.drops += 1
            self.fault("discard")
            if nr.blocking:
                self.violate("C09", "blocking-node-discarded", self.nlabel(nr.id), f"blocking {nr.id} dropped pallet {iid}")

    def resolve_splitter(self, nr):
        node = self.run.nodes[nr.id]
        if nr.pallet is None or nr.pallet["item"] not in nr.held:
            return
        busy = len(node.worker_thread_list) > 0 or node.pallet_in_process is not None
        if not busy:
            self.resolve_splitter_drop(nr, self.run.env.now)
            return
        obj = self.run.items.get(nr.pallet["item"])
        d = self.stat(nr.id, "num_item_discarded") - nr.disc_at_pull
        inhand = len(nr.content) - len(nr.emitted) - len(getattr(obj, "items", []) or []) - d
        if inhand not in (0, 1):
            self.violate("C03", "splitter-items-unaccounted", self.nlabel(nr.id),
                         f"{nr.id}: pallet content {len(nr.content)} - emitted {len(nr.emitted)} - still packed "
                         f"{len(getattr(obj, 'items', []) or [])} - discarded {d} = {inhand} (the splitter holds at most one unpacked item)")
        nr.inhand = max(0, inhand)

    def check_conservation(self):
        run = self.run
        gen = disc = recv = 0
        for nid, nr in self.nrec.items():
            gen += self.stat(nid, "num_item_generated")
            disc += self.stat(nid, "num_item_discarded")
            recv += self.stat(nid, "num_item_received")
        in_edges = 0
        for eid in self.erec:
            items = run.edge_items(eid)
            in_edges += len(items)
            if len(items) != self.erec[eid].count:
                self.violate("C03", "edge-contents-vs-history", self.elabel(eid),
                             f"edge {eid} holds {len(items)} items but puts-gets = {self.erec[eid].count}")
            else:
                # ... and they are the very items that were put and not yet taken (each exactly once)
                have = sorted(str(getattr(x, "id", x)) for x in items)
                want = sorted(str(k) for k in self.erec[eid].inside)
                if have != want:
                    self.violate("C03", "edge-contents-vs-history", self.elabel(eid) + ",identity",
                                 f"edge {eid} holds {have[:8]} but the items put and not yet taken are {want[:8]}")
        packed = sum(len(o.items) for o in run.items.values() if hasattr(o, "items"))
        in_nodes = 0
        for nid, nr in self.nrec.items():
            if nr.type in ("source", "chaos_producer"):
                h = self.stat(nid, "num_item_generated") - nr.first_seen - self.stat(nid, "num_item_discarded")
                if h not in (0, 1):
                    self.violate("C03", "source-holding", self.nlabel(nid), f"{nid}: generated {self.stat(nid, 'num_item_generated')} - pushed "
                                 f"{nr.first_seen} - discarded {self.stat(nid, 'num_item_discarded')} = {h}; a source holds at most its one unpushed item")
                in_nodes += max(h, 0)
            elif nr.type in PROC:
                in_nodes += len(nr.held)
                if nr.type == "splitter" and nr.pallet is not None:
                    in_nodes += getattr(nr, "inhand", 0)
                # discards counted by the node must be the drops the history shows
                if nr.type == "machine" and nr.drops != self.stat(nid, "num_item_discarded"):
                    self.violate("C18", "discard-counter", self.nlabel(nid), f"{nid} dropped {nr.drops} items, num_item_discarded={self.stat(nid, 'num_item_discarded')}")
        # a pallet source's pallets are empty when generated; items packed later are counted where they are
        rhs = in_edges + in_nodes + packed + disc + recv
        if gen != rhs:
            self.violate("C03", "counter-equation", self.meta.get("template", "?"),
                         f"generated {gen} != in edges {in_edges} + in nodes {in_nodes} + packed {packed} + discarded {disc} + received {recv}")
        self.probe("c03_equation_checked")

    # ---- C09 / C10 at the end of every instant --------------------------------------------------------------
    def edge_room(self, eid):
        er = self.erec[eid]
        return er.cap - er.count - self.granted_unused(eid, "p")

    def node_tokens(self, nid, kind, states=("pending", "granted")):
        return [tk for tk in self.run.toks.values() if tk.actor == nid and tk.kind == kind and tk.state in states]

    def check_c09_c10(self, now):
        run = self.run
        for nid, nr in self.nrec.items():
            node = run.nodes[nid]
            if nr.type == "machine":
                setup = nr.spec.get("setup", 0)
                out_edges = [e.id for e in node.out_edges]
                in_edges = [e.id for e in node.in_edges]
                waiting = [l for l in nr.held.values() if l["finish"] is not None and l["finish"] <= now]
                if waiting:
                    self.blocked_seen = True
                if not nr.blocking and waiting:
                    self.violate("C09", "non-blocking-node-waits", self.nlabel(nid),
                                 f"non-blocking {nid} still holds finished item {waiting[0]['item']} (finished at {waiting[0]['finish']}) at end of instant {now}")
                if nr.blocking and waiting:
                    ptoks = self.node_tokens(nid, "p")
                    fa = self.pol(nid, "out") == "FIRST_AVAILABLE"
                    if not ptoks:
                        self.violate("C10", "finished-item-not-offered", self.nlabel(nid), f"{nid} holds finished {waiting[0]['item']} at {now} without any outstanding space request")
                    for tk in ptoks:
                        if tk.state == "granted":
                            self.violate("C10", "granted-space-unused", self.nlabel(nid) + "," + self.elabel(tk.edge),
                                         f"{nid} holds finished items and a granted, unused space reservation on {tk.edge} at end of instant {now}")
                    if fa and all(self.erec[e].type in ("buffer", "fleet") for e in out_edges):
                        for e in out_edges:
                            if self.edge_room(e) > 0:
                                self.violate("C10", "room-but-not-pushed", self.nlabel(nid) + "," + self.elabel(e),
                                             f"{nid} holds finished {waiting[0]['item']} at end of instant {now} although out-edge {e} has room")
                                self.violate("C08", "held-although-out-edge-has-room", self.nlabel(nid) + "," + self.elabel(e),
                                             f"{nid} still holds {waiting[0]['item']} (finished at {waiting[0]['finish']}) at end of instant {now} although out-edge {e}, "
                                             f"which its policy permits, is able to accept it")
                        by_edge = {}
                        for tk in ptoks:
                            by_edge[tk.edge] = by_edge.get(tk.edge, 0) + 1
                        for e in out_edges:
                            if by_edge.get(e, 0) < len(waiting) and len(set(out_edges)) == len(out_edges):
                                self.violate("C10", "missing-space-request", self.nlabel(nid), f"{nid}: {len(waiting)} finished items wait but only "
                                             f"{by_edge.get(e, 0)} space request(s) outstanding on {e}")
                # leaked reservations (hygiene)
                ptoks = self.node_tokens(nid, "p")
                if len(ptoks) > len(waiting) * max(1, len(out_edges)):
                    self.violate("C10", "leaked-space-reservation", self.nlabel(nid), f"{nid} has {len(ptoks)} outstanding space reservations "
                                 f"for {len(waiting)} finished item(s) at end of instant {now}")
                gtoks = self.node_tokens(nid, "g")
                # a non-blocking machine is rid of an item in its finish instant (pushed or dropped, C09): an item that finished earlier
                # and is still referenced by a worker does not occupy a worker as far as C10 is concerned
                live = [l for l in nr.held.values() if nr.blocking or l.get("finish") is None or l["finish"] >= now]
                free = len(live) < nr.spec.get("wc", 1)
                if now >= setup:
                    per = {}
                    for tk in gtoks:
                        per[tk.edge] = per.get(tk.edge, 0) + 1
                    if any(v > 1 for v in per.values()):
                        self.violate("C10", "leaked-retrieval-reservation", self.nlabel(nid), f"{nid} has {per} outstanding retrieval reservations per in-edge at {now}")
                    if free:
                        if any(tk.state == "granted" for tk in gtoks):
                            self.violate("C10", "granted-item-not-taken", self.nlabel(nid), f"{nid} has a free worker and a granted, unused retrieval reservation at end of instant {now}")
                        if now > setup and not gtoks:
                            self.violate("C10", "idle-without-request", self.nlabel(nid), f"{nid} has a free worker but no outstanding retrieval request at end of instant {now}")
                        pin = self.pol(nid, "in")
                        allowed = None      # the one in-edge a deterministic policy allows next (single worker: one request per pulled item)
                        cidx = nr.spec.get("in_sel")
                        if pin == "const" and isinstance(cidx, int) and 0 <= cidx < len(in_edges):
                            allowed = in_edges[cidx]
                        elif pin == "ROUND_ROBIN" and nr.spec.get("wc", 1) == 1 and len(set(in_edges)) == len(in_edges):
                            allowed = in_edges[len(nr.life) % len(in_edges)]
                        if allowed is not None and now > setup and len(run.edge_ready(allowed)) - self.granted_unused(allowed, "g") > 0:
                            self.violate("C10", "available-item-not-taken", self.nlabel(nid) + "," + self.elabel(allowed) + "," + str(pin),
                                         f"{nid} has a free worker at end of instant {now} while in-edge {allowed}, the one its policy {pin} allows next, offers an unreserved item")
                        if pin == "FIRST_AVAILABLE" and now > setup:
                            for e in in_edges:
                                avail = len(run.edge_ready(e)) if self.erec[e].type != "buffer" or True else 0
                                if avail - self.granted_unused(e, "g") > 0:
                                    self.violate("C10", "available-item-not-taken", self.nlabel(nid) + "," + self.elabel(e),
                                                 f"{nid} has a free worker at end of instant {now} while in-edge {e} offers an unreserved item")
            elif nr.type == "sink":
                gtoks = self.node_tokens(nid, "g")
                if any(tk.state == "granted" for tk in gtoks):
                    self.violate("C10", "granted-item-not-taken", "sink", f"{nid} has a granted, unused retrieval reservation at end of instant {now}")
                for e in node.in_edges:
                    if len(run.edge_ready(e.id)) - self.granted_unused(e.id, "g") > 0:
                        self.violate("C10", "available-item-not-taken", "sink," + self.elabel(e.id), f"sink {nid}: in-edge {e.id} offers an unreserved item at end of instant {now}")
                per = {}
                for tk in gtoks:
                    per[tk.edge] = per.get(tk.edge, 0) + 1
                if any(v > 1 for v in per.values()):
                    self.violate("C10", "leaked-retrieval-reservation", "sink", f"{nid} has {per} outstanding retrieval reservations per in-edge at {now}")
            elif nr.type == "source":
                h = self.stat(nid, "num_item_generated") - nr.first_seen - self.stat(nid, "num_item_discarded")
                if h > 0:
                    self.blocked_seen = True
                    if not nr.blocking:
                        self.violate("C09", "non-blocking-node-waits", self.nlabel(nid), f"non-blocking source {nid} still holds a generated item at end of instant {now}")
                    else:
                        out_edges = [e.id for e in node.out_edges]
                        ptoks = self.node_tokens(nid, "p")
                        if not ptoks:
                            self.violate("C10", "finished-item-not-offered", self.nlabel(nid), f"{nid} holds a generated item at {now} without any outstanding space request")
                        if any(tk.state == "granted" for tk in ptoks):
                            self.violate("C10", "granted-space-unused", self.nlabel(nid), f"{nid} holds an item and a granted, unused space reservation at end of instant {now}")
                        if self.pol(nid, "out") == "FIRST_AVAILABLE" and all(self.erec[e].type in ("buffer", "fleet") for e in out_edges):
                            for e in out_edges:
                                if self.edge_room(e) > 0:
                                    self.violate("C10", "room-but-not-pushed", self.nlabel(nid) + "," + self.elabel(e), f"{nid} holds an item at end of instant {now} although out-edge {e} has room")
                else:
                    ptoks = self.node_tokens(nid, "p")
                    if ptoks:
                        self.violate("C10", "leaked-space-reservation", self.nlabel(nid), f"{nid} holds no item but has {len(ptoks)} outstanding space reservation(s) at {now}")
                if nr.blocking and self.stat(nid, "num_item_discarded"):
                    self.violate("C09", "blocking-node-discarded", self.nlabel(nid), f"blocking source {nid} has num_item_discarded={self.stat(nid, 'num_item_discarded')}")
            if nr.type in ("splitter", "combiner"):
                self.check_unit_node(nid, nr, node, now)
                self.check_unit_input(nid, nr, node, now)
            if nr.type in PROC and nr.blocking and self.stat(nid, "num_item_discarded"):
                self.violate("C09", "blocking-node-discarded", self.nlabel(nid), f"blocking {nid} has num_item_discarded={self.stat(nid, 'num_item_discarded')}")

    def check_unit_node(self, nid, nr, node, now):
        """Splitter / combiner: one unit of work (a pallet).  Non-blocking: everything the finished unit yields is pushed or
        dropped in the finish instant.  Blocking FIRST_AVAILABLE: a finished unit is never held while an out-edge has room."""
        # hygiene (C10, last sentence): one worker pushes one thing at a time, so at the end of an instant a unit node has at most one
        # space request per out-edge, and none at all while it holds nothing
        ptoks = self.node_tokens(nid, "p")
        if ptoks:
            oe = [e.id for e in node.out_edges]
            per = {}
            for tk in ptoks:
                per[tk.edge] = per.get(tk.edge, 0) + 1
            if len(set(oe)) == len(oe) and any(v > 1 for v in per.values()):
                self.violate("C10", "leaked-space-reservation", self.nlabel(nid), f"{nid} has {per} outstanding space reservations per out-edge at end of instant {now} "
                             f"(it pushes one thing at a time)")
            elif not nr.held:
                self.violate("C10", "leaked-space-reservation", self.nlabel(nid), f"{nid} holds nothing but has {len(ptoks)} outstanding space reservation(s) at end of instant {now}")
        life = None
        for l in nr.held.values():
            life = l if life is None or l["pull_seq"] < life["pull_seq"] else life      # the oldest unit still held
        if life is None:
            return
        d = life["d"]
        if d is None:
            spec = nr.spec.get("pdelay", 0)
            d = spec["vals"][0] if isinstance(spec, dict) and spec["form"] == "const" else (None if isinstance(spec, dict) else spec)
        if d is None:
            return
        if nr.type == "splitter":
            fin = life["pull_t"] + d
        else:
            if "complete_t" not in life:
                return
            prev = max([l["leave_t"] for l in nr.life if l["leave_t"] is not None and l["pull_seq"] < life["pull_seq"]] + [0])
            fin = max(life["complete_t"], prev) + d
        if fin > now:
            return
        self.blocked_seen = True
        out_edges = [e.id for e in node.out_edges]
        if not nr.blocking:
            self.violate("C09", "non-blocking-node-waits", self.nlabel(nid),
                         f"non-blocking {nid} still holds its unit of work {life['item']} (finished at {fin}) at end of instant {now}")
        elif self.pol(nid, "out") == "FIRST_AVAILABLE" and all(self.erec[e].type in ("buffer", "fleet") for e in out_edges):
            for e in out_edges:
                if self.edge_room(e) > 0:
                    self.violate("C10", "room-but-not-pushed", self.nlabel(nid) + "," + self.elabel(e),
                                 f"{nid} holds finished {life['item']} (finished at {fin}) at end of instant {now} although out-edge {e} has room")
                    self.violate("C08", "held-although-out-edge-has-room", self.nlabel(nid) + "," + self.elabel(e),
                                 f"{nid} still holds its unit {life['item']} (finished at {fin}) at end of instant {now} although out-edge {e}, which its policy permits, is able to accept it")
                    break

    def check_unit_input(self, nid, nr, node, now):
        """Input side of splitter / combiner (C10): an idle node asks for work and takes what is granted in the same instant."""
        setup = nr.spec.get("setup", 0)
        if now <= setup:
            return
        run = self.run
        gtoks = self.node_tokens(nid, "g")
        per = {}
        for tk in gtoks:
            per[tk.edge] = per.get(tk.edge, 0) + 1
        in_edges = [e.id for e in node.in_edges]
        lab = self.nlabel(nid)
        if nr.type == "splitter":
            if any(v > 1 for v in per.values()):
                self.violate("C10", "leaked-retrieval-reservation", lab, f"{nid} has {per} outstanding retrieval reservations per in-edge at {now}")
            if nr.held:
                return          # busy: it may already hold the reservation for its next pallet
            if any(tk.state == "granted" for tk in gtoks):
                self.violate("C10", "granted-item-not-taken", lab, f"{nid} is idle and holds a granted, unused retrieval reservation at end of instant {now}")
            if not gtoks:
                self.violate("C10", "idle-without-request", lab, f"{nid} is idle but has no outstanding retrieval request at end of instant {now}")
            if self.pol(nid, "in") == "FIRST_AVAILABLE":
                for e in in_edges:
                    if len(run.edge_ready(e)) - self.granted_unused(e, "g") > 0:
                        self.violate("C10", "available-item-not-taken", lab + "," + self.elabel(e), f"{nid} is idle at end of instant {now} while in-edge {e} offers an unreserved item")
            return
        # combiner
        recipe = nr.spec["recipe"]
        filling = nr.pallet is not None and nr.pallet["item"] in nr.held and "complete_t" not in nr.pallet
        if filling:
            have = {}
            for x, ii in nr.pallet.get("gathered", []):
                have[ii] = have.get(ii, 0) + 1
            for i, e in enumerate(in_edges):
                if i == 0:
                    continue
                need = recipe[i] - have.get(i, 0)
                if need > 0 and len(run.edge_ready(e)) - self.granted_unused(e, "g") > 0:
                    self.violate("C10", "available-item-not-taken", lab + "," + self.elabel(e),
                                 f"{nid} still needs {need} item(s) from in-edge {i} at end of instant {now} while that edge offers an unreserved item")
                if per.get(e, 0) != need and len(set(in_edges)) == len(in_edges):
                    self.violate("C10", "ingredient-requests", lab, f"{nid} still needs {need} item(s) from in-edge {i} for pallet {nr.pallet['item']} but has "
                                 f"{per.get(e, 0)} outstanding retrieval reservation(s) there at end of instant {now}")
            if any(tk.state == "granted" for tk in gtoks):
                self.violate("C10", "granted-item-not-taken", lab, f"{nid} is filling pallet {nr.pallet['item']} and holds a granted, unused retrieval reservation at end of instant {now}")
        elif not nr.held:
            e0 = in_edges[0]
            if any(tk.state == "granted" for tk in gtoks):
                self.violate("C10", "granted-item-not-taken", lab, f"{nid} holds no pallet and a granted, unused retrieval reservation at end of instant {now}")
            if per.get(e0, 0) != 1 or len(gtoks) != 1:
                self.violate("C10", "idle-without-request", lab, f"{nid} holds no pallet; outstanding retrieval reservations per in-edge at end of instant {now}: {per} (expected exactly one on its pallet edge)")
            if len(run.edge_ready(e0)) - self.granted_unused(e0, "g") > 0:
                self.violate("C10", "available-item-not-taken", lab + "," + self.elabel(e0), f"{nid} holds no pallet at end of instant {now} while its pallet edge {e0} offers an unreserved pallet")

    # ---- end of run ------------------------------------------------------------------------------------
    def on_build_error(self, e):
        inv = self.meta.get("invalid")
        if inv:
            self.probe("c20_invalid_rejected_at_construction")
            self.probe("c20_invalid_rejected:" + inv["kind"])
            return
        self.violate("C20", "build-crash:" + type(e).__name__, "build", f"building a valid model raised {e!r}", norm_msg(e))

    def judge_invalid(self):
        """An invalid configuration must be rejected with an error, not silently simulated."""
        run, inv = self.run, self.meta["invalid"]
        if run.crash is not None and run.crash[0] != "livelock":
            self.probe("c20_invalid_rejected_at_run")
            self.probe("c20_invalid_rejected:" + inv["kind"])
            return
        w = inv["where"]
        moved = sum(1 for r in run.log if r[0] in ("put", "get") and (r[3] == w or r[6] == w))
        if inv["kind"] in ("negative-processing-delay", "negative-delay-from-callable") and w in self.nrec:
            # the delay is only consulted once a unit of work is complete (combiner: recipe gathered)
            nr = self.nrec[w]
            moved = sum(1 for l in nr.life if (nr.type != "combiner" or "complete_t" in l))
        if moved == 0 and inv["kind"] not in ("edge-capacity", "buffer-mode", "nonblocking-source-zero-iat", "index-out-of-range-in", "index-out-of-range-out",
                                              "node-without-out-edge", "node-without-in-edge", "source-with-in-edge", "sink-with-out-edge"):
            self.probe("c20_invalid_not_exercised")
            return
        self.violate("C20", "invalid-accepted:" + inv["kind"], self.nrec[w].type if w in self.nrec else self.erec[w].type,
                     f"invalid configuration ({inv['kind']} at {w}) was simulated without an error; {moved} item movement(s) on that component")

    def judge_bad_index(self):
        run, bi = self.run, self.meta["bad_index"]
        vs = run.vsrc.get((bi["node"], "policy_" + bi["side"]))
        if vs is None or len(vs.calls) <= bi["position"]:
            self.probe("c15_bad_index_not_reached")
            return
        bad = vs.calls[bi["position"]][2]
        if run.crash is not None and run.crash[0] in ("AssertionError", "IndexError", "ValueError"):
            self.probe("c15_bad_index_rejected")
            return
        self.violate("C15", "out-of-range-accepted", self.nlabel(bi["node"]) + "," + bi["side"],
                     f"{bi['node']}: its {bi['side']}-edge selector answered {bad} (out of range) and the run went on "
                     f"({'crash ' + str(run.crash[0]) if run.crash else 'no error'})")

    def finish(self):
        run = self.run
        if self.meta.get("bad_index"):
            self.judge_bad_index()
            return
        if self.meta.get("invalid"):
            self.judge_invalid()
            return
        if run.crash is not None and self.meta.get("wide") and run.crash[0] == "ValueError" and "Unsupported edge type" in run.crash[1]:
            self.probe("c20_unsupported_edge_type_rejected")
            return
        if run.crash is not None:
            kind, msg, where = run.crash
            if kind == "livelock":
                self.violate("C20", "livelock", self.meta.get("template", "?"), f"zero-time livelock: {msg}")
            elif kind == "clock-went-back":
                self.violate("C19", "clock-went-back", self.meta.get("template", "?"), f"simulated time decreased: {msg}")
            elif not self.meta.get("invalid"):
                self.violate("C20", f"crash:{kind}", where or "?", f"{kind}: {msg} escaped env.step() at {where}", norm_msg(msg))
            return
        self.on_event()
        from . import oracles_b_final
        oracles_b_final.finish(self)
