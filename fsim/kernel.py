"""SimEnv: the kernel seam.  A simpy.Environment subclass that the code under test accepts everywhere
(`isinstance(env, simpy.Environment)`), adding only observation:

  * global event sequence number, monotone-clock assertion,
  * events-per-instant counter (zero-time livelock detector) and total step cap,
  * hooks after every kernel event and at the end of every instant,
  * per-class counter of scheduled events (reach metric).

Tie-breaking among same-time events is left exactly as SimPy defines it.
"""
import simpy
from heapq import heappush
from simpy.core import EmptySchedule
from simpy.events import NORMAL, URGENT

INF = float("inf")


class HarnessCap(Exception):
    """A cap of the harness itself was hit (run is discarded, never a verdict)."""


class Livelock(Exception):
    """More than `livelock_cap` kernel events were processed without the clock advancing."""


class ClockWentBack(Exception):
    pass


class SimEnv(simpy.Environment):
    def __init__(self, livelock_cap=20000, step_cap=400000):
        super().__init__(0)
        self.seq = 0                # global event sequence number
        self.n_in_instant = 0
        self.max_in_instant = 0
        self.n_instants = 0
        self.livelock_cap = livelock_cap
        self.step_cap = step_cap
        self.after_event = []       # fn() called after every processed kernel event
        self.at_instant_end = []    # fn() called when the next event lies strictly later
        self.sched = {}
        self.auto_instant_end = True

    # -- seam -----------------------------------------------------------------------------------
    def schedule(self, event, priority=NORMAL, delay=0):
        n = type(event).__name__
        self.sched[n] = self.sched.get(n, 0) + 1
        super().schedule(event, priority, delay)

    def step(self):
        before = self._now
        super().step()              # may raise: EmptySchedule, or a crashed process' exception
        if self._now < before:
            raise ClockWentBack(f"now went from {before} to {self._now}")
        self.seq += 1
        if self._now > before:
            self.n_in_instant = 0
            self.n_instants += 1
        self.n_in_instant += 1
        if self.n_in_instant > self.max_in_instant:
            self.max_in_instant = self.n_in_instant
        if self.n_in_instant > self.livelock_cap:
            raise Livelock(f"{self.n_in_instant} events at t={self._now}")
        if self.seq > self.step_cap:
            raise HarnessCap(f"step cap {self.step_cap} reached at t={self._now}")
        for f in self.after_event:
            f()
        if self.auto_instant_end and self.peek() > self._now:
            for f in self.at_instant_end:
                f()

    # -- helpers for the harness -------------------------------------------------------------------
    def drain_instant(self):
        """Process every event scheduled for the current instant."""
        while self.peek() <= self._now:
            self.step()

    def run_to(self, target, inclusive=True):
        """Step until the clock reaches `target`.  inclusive: also process everything *at* target.
        Otherwise stop with now == target *before* any NORMAL event of that instant (a marker event
        with URGENT priority carries the clock there) - the caller then acts 'ahead of the timers'."""
        if inclusive:
            while self.peek() <= target:
                self.step()
            if self._now < target:
                self._now = target  # same as simpy's run(until=number) reaching an empty stretch
        else:
            while self.peek() < target:
                self.step()
            if self._now < target:
                ev = simpy.Event(self)
                ev._ok = True
                ev._value = None
                # pushed directly so that the time is exactly `target` (now + (target-now) may round)
                heappush(self._queue, (target, URGENT, next(self._eid), ev))
                while not ev.processed:
                    self.step()
