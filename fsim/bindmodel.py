"""Nondeterministic binding model for retrieval reservations (C02 / C04 / C06).

The store never tells which item a granted retrieval reservation is bound to until `get` returns it,
and gets may come in any order.  The model therefore keeps the *set of worlds* (token -> item maps plus
the set of released items) that are consistent with the property text and with everything observed:

  FIFO  a new grant binds to an unbound *released* item if one exists (any of them - the order among
        several released items is left free), otherwise to the earliest-available never-reserved item;
  LIFO  a new grant binds to the most recently available unbound item, or to any unbound released item;
  filter (custom predicate) the grant may bind to any unbound item satisfying the predicate - the
        property only demands that the item received satisfies the filter;
        default-filter requests follow FIFO among the items satisfying the default predicate.

A history is accepted iff the world set never becomes empty.
"""

WORLD_CAP = 4096


class BindModel:
    def __init__(self, mode="FIFO"):
        self.mode = mode
        self.order = []        # names of available, not yet returned items in availability order
        self.objs = {}
        self.worlds = [({}, frozenset())]   # (bind: tok->item, released items)
        self.broken = False

    def avail(self, name, obj):
        self.order.append(name)
        self.objs[name] = obj

    def _cands(self, bind, released, pred, custom):
        bound = set(bind.values())
        unb = [x for x in self.order if x not in bound]
        if pred is not None:
            unb = [x for x in unb if pred(self.objs[x])]
        if not unb:
            return []
        if custom:
            return unb
        rel = [x for x in unb if x in released]
        if self.mode == "FIFO":
            if rel:
                return rel
            return [unb[0]]
        top = unb[-1]
        return rel + ([top] if top not in rel else [])

    def grant(self, tok, pred=None, custom=False):
        new = []
        seen = set()
        for bind, released in self.worlds:
            for x in self._cands(bind, released, pred, custom):
                b = dict(bind)
                b[tok] = x
                r = released - {x}
                key = (tuple(sorted(b.items())), r)
                if key not in seen:
                    seen.add(key)
                    new.append((b, r))
        if not new:
            return "no-backing"
        if len(new) > WORLD_CAP:
            return "overflow"
        self.worlds = new
        return "ok"

    def cancel(self, tok):
        new = []
        seen = set()
        for bind, released in self.worlds:
            if tok not in bind:
                new.append((bind, released))
                continue
            b = dict(bind)
            x = b.pop(tok)
            r = released | {x}
            key = (tuple(sorted(b.items())), r)
            if key not in seen:
                seen.add(key)
                new.append((b, r))
        self.worlds = new

    def get(self, tok, item):
        """Returns None if consistent, else an explanation."""
        ok = [(b, r) for b, r in self.worlds if b.get(tok) == item]
        if not ok:
            exp = sorted({b.get(tok) for b, _ in self.worlds if tok in b})
            why = (f"{self.mode}: retrieval {tok} received {item}, but the discipline allows only {exp} "
                   f"(available in order {self.order}; released so far: "
                   f"{sorted(set().union(*[r for _, r in self.worlds])) if self.worlds else []})")
            self.forget(item)
            return why
        new = []
        seen = set()
        for b, r in ok:
            b = dict(b)
            b.pop(tok)
            key = (tuple(sorted(b.items())), r)
            if key not in seen:
                seen.add(key)
                new.append((b, r - {item}))
        self.worlds = new
        self.forget(item)
        return None

    def forget(self, item):
        if item in self.order:
            self.order.remove(item)
        self.objs.pop(item, None)

    def servable_in_every_world(self, pred):
        """True iff in every world an unbound available item satisfying pred exists."""
        if not self.worlds:
            return False
        for bind, _ in self.worlds:
            bound = set(bind.values())
            unb = [x for x in self.order if x not in bound]
            if pred is not None:
                unb = [x for x in unb if pred(self.objs[x])]
            if not unb:
                return False
        return True
